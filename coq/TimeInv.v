(* TimeInv.v — C10: in histories whose publish times never decrease (and are not negative), the index timestamps
   of every index file equal the message times (TS) in every reachable state: the hypothesis of
   log_get_by_time_correct is met.  T is a ghost bound: the largest time published so far. *)
From KV Require Import Base Model ListAux SearchProofs SegProofs ReaderProofs Spec SpecFacts LogInv
     ConsumeProofs GetProofs AbsFacts PublishProofs DeleteProofs OpenProofs ReadsPreserve History KeyProofs KeyInv TimeProofs.
From Coq Require Import ZifyBool ZifyNat.

Section TimeInv.
Variable H : bytes -> Z.
Notation KInv := (KInv H).
Notation KGood := (KGood H).

(* ---------- per-segment constructions *)

Lemma tf_none s : ts_faithful_seg (set_idx s None).
Proof. intros iv items E. discriminate. Qed.

Lemma tf_empty s v : ts_faithful_seg (set_idx s (Some (v, []))).
Proof. intros iv items E. cbn in E. injection E as <- <-. now left. Qed.

Lemma tf_derive p s iv v : ptimes p = true -> tmono 0 (srecs s) ->
  ts_faithful_seg (set_idx s (Some (iv, derive H p v (srecs s)))).
Proof.
  intros Hp Hm iv' items E. cbn in E. injection E as <- <-. right. unfold faithful, derive. cbn [srecs set_idx].
  now apply derive_faithful.
Qed.

Lemma tf_new_head c base : ts_faithful_seg (new_head c base).
Proof. intros iv items E. cbn in E. injection E as <- <-. now left. Qed.

Lemma tf_rewritten p mv iv survive : ptimes p = true -> tmono 0 survive -> ts_faithful_seg (rewritten H p mv iv survive).
Proof.
  intros Hp Hm iv' items E. cbn in E. injection E as <- <-. right. unfold faithful, derive. cbn [srecs rewritten].
  now apply derive_faithful.
Qed.

Lemma tmono_filter f : forall l lo, tmono lo l -> tmono lo (filter f l).
Proof.
  induction l as [|m r IH]; intros lo Hm; [exact I|]. destruct Hm as [H1 H2]. cbn [filter]. destruct (f m).
  - split; [exact H1|now apply IH].
  - apply IH. eapply tmono_weaken; [|exact H2]. exact H1.
Qed.

Lemma tmono_snoc_app lo a b T :
  tmono lo a -> (forall x, In x a -> mtime x <= T) -> lo <= T -> tmono T b -> tmono lo (a ++ b).
Proof.
  revert lo. induction a as [|m r IH]; intros lo Ha Hb Hlo Hm; cbn [app].
  - eapply tmono_weaken; [|exact Hm]. exact Hlo.
  - destruct Ha as [H1 H2]. split; [exact H1|]. apply IH; [exact H2|intros x Hx; apply Hb; now right| |exact Hm].
    apply Hb. now left.
Qed.

Lemma assign_times next : forall ms, map mtime (assign_offsets next ms) = map mtime ms.
Proof. intros ms. revert next. induction ms as [|m r IH]; intros next; [reflexivity|]. cbn [assign_offsets map mtime]. now rewrite IH. Qed.

Lemma tmono_times lo a b : map mtime a = map mtime b -> tmono lo a -> tmono lo b.
Proof.
  revert lo b. induction a as [|x a IH]; intros lo [|y b] E Hm; try discriminate; [exact I|].
  cbn [map] in E. injection E as E1 E2. destruct Hm as [H1 H2]. cbn [tmono]. split; [rewrite <- E1; exact H1|]. rewrite <- E1. now apply IH.
Qed.

Definition last_time (T : Z) (ms : list msg) : Z := match last_opt ms with Some m => mtime m | None => T end.

Lemma tmono_last_bound T ms : tmono T ms -> T <= last_time T ms /\ forall x, In x ms -> mtime x <= last_time T ms.
Proof.
  unfold last_time. revert T. induction ms as [|m r IH]; intros T Hm; [split; [cbn; lia|intros x []]|].
  destruct Hm as [H1 H2]. destruct r as [|m2 r'].
  - cbn. split; [exact H1|intros x [->|[]]; lia].
  - rewrite last_opt_cons_cons. destruct (IH (mtime m) H2) as [A B].
    destruct (last_opt (m2 :: r')) as [lm|] eqn:El; [|apply last_opt_none in El; discriminate].
    split; [lia|]. intros x [->|Hx]; [exact A|now apply B].
Qed.

(* ---------- the invariant *)

Definition TSp (p : params) (st : lstate) : Prop := ptimes p = true -> TS st.

Definition TGood (p : params) (T : Z) (st : lstate) : Prop :=
  KGood p st /\ TSp p st /\ tmono 0 (all_recs (segs st)) /\
  (forall m, In m (all_recs (segs st)) -> mtime m <= T) /\ (ptimes p = true -> wcarry st <= T) /\ 0 <= T.

Lemma tgood_init p : TGood p 0 init_state.
Proof.
  split; [apply kgood_init|]. split; [intros _; constructor|]. split; [exact I|]. split; [intros m []|]. cbn. split; [intros _|]; lia.
Qed.

(* ---------- Publish *)

Lemma head_faithful hd : head_inv hd -> ts_faithful_seg hd -> faithful hd (head_items hd).
Proof.
  intros (iv & its0 & Hsi & Hm) Hf. unfold head_items. rewrite Hsi. destruct (Hf iv its0 Hsi) as [->|Hx]; [|exact Hx].
  unfold faithful. destruct Hm as [Ho _]. destruct (srecs hd); [reflexivity|discriminate].
Qed.

Lemma last_its_time hd items m : faithful hd items -> last_opt (srecs hd) = Some m ->
  match last_opt items with Some it => its it = mtime m | None => False end.
Proof.
  unfold faithful. intros Hf Hl.
  assert (E : option_map its (last_opt items) = option_map mtime (last_opt (srecs hd))) by (rewrite <- !last_opt_map, Hf; reflexivity).
  rewrite Hl in E. destruct (last_opt items); cbn in E; [now injection E|discriminate].
Qed.

Theorem log_publish_ts c st ms st2 n T :
  KInv (cparams c) st -> TS st -> opened st = Some c -> ctimes c = true ->
  tmono 0 (all_recs (segs st)) -> (forall m, In m (all_recs (segs st)) -> mtime m <= T) -> wcarry st <= T -> 0 <= T ->
  tmono T ms -> log_publish H st ms = Ok (st2, n) ->
  TS st2 /\ wcarry st2 <= last_time T ms.
Proof.
  intros HK HT Hc Hpt Hm Hb Hw HT0 Hms E. pose proof HK as (HI & HX & Hp). set (p := cparams c) in *.
  destruct (tmono_last_bound T ms Hms) as [HTle _].
  assert (Hro : cro c = false).
  { unfold log_publish, get_cfg in E. rewrite Hc in E. cbn [bind] in E. destruct (cro c); [discriminate|reflexivity]. }
  pose proof HI as (Hne & HF & Hch & Hv & c' & Hc' & Hhead). rewrite Hc in Hc'. injection Hc' as <-. specialize (Hhead Hro).
  unfold log_publish, get_cfg in E. rewrite Hc in E. cbn [bind] in E. rewrite Hro in E.
  unfold head_seg in E. destruct (last_opt (segs st)) as [hd|] eqn:Ehd; [|contradiction]. cbn [bind] in E.
  assert (Hhd_in : In hd (segs st)) by now apply last_opt_in.
  assert (Hhdf : ts_faithful_seg hd) by (unfold TS in HT; rewrite Forall_forall in HT; now apply HT).
  pose proof (head_faithful hd Hhead Hhdf) as Hfa.
  (* the carried time: the time of the last message of the head, or wcarry *)
  assert (Hnt : next_time st hd <= T).
  { unfold next_time. destruct (last_opt (head_items hd)) as [it|] eqn:El; [|exact Hw].
    destruct (last_opt (srecs hd)) as [m|] eqn:Elr.
    - pose proof (last_its_time hd _ m Hfa Elr) as Hl. rewrite El in Hl. rewrite Hl. apply Hb.
      eapply all_recs_in_seg; [exact Hhd_in|now apply last_opt_in].
    - apply last_opt_none in Elr. unfold faithful in Hfa. rewrite Elr in Hfa. destruct (head_items hd); [discriminate|discriminate]. }
  assert (Hnew : forall nxt, tmono T (assign_offsets nxt ms)) by (intros nxt; eapply tmono_times; [symmetry; apply assign_times|exact Hms]).
  destruct (needs_rollover c hd) eqn:Eroll; destruct (existsb msg_too_big ms); try discriminate; injection E as <- _.
  - (* rollover *)
    split; [|cbn [wcarry set_segs]; lia].
    unfold TS. cbn [segs set_segs]. apply Forall_replace_nth.
    + apply Forall_app. split; [exact HT|]. constructor; [apply tf_new_head|constructor].
    + intros iv items Eix. cbn [sidx] in Eix. injection Eix as _ <-. right. unfold faithful. cbn [srecs new_head head_items sidx app].
      unfold next_time at 1. cbn [head_items new_head sidx last_opt wcarry]. apply derive_faithful; [exact Hpt|].
      eapply tmono_weaken; [exact Hnt|]. apply Hnew.
  - (* same head *)
    split; [|cbn [wcarry set_segs]; lia].
    unfold TS. cbn [segs set_segs]. apply Forall_replace_nth; [exact HT|].
    intros iv items Eix. cbn [sidx] in Eix. injection Eix as _ <-. right. unfold faithful. cbn [srecs]. rewrite !map_app. f_equal; [exact Hfa|].
    apply derive_faithful; [exact Hpt|]. eapply tmono_weaken; [exact Hnt|]. apply Hnew.
Qed.


(* ---------- Delete *)

Lemma tmono_seg_recs st s : tmono 0 (all_recs (segs st)) -> In s (segs st) -> tmono 0 (srecs s).
Proof. intros Hm Hs. now apply (tmono_seg 0 (segs st)). Qed.

Theorem log_delete_ts c st offs st2 r T :
  KInv (cparams c) st -> TS st -> opened st = Some c -> ctimes c = true ->
  tmono 0 (all_recs (segs st)) -> (forall m, In m (all_recs (segs st)) -> mtime m <= T) -> wcarry st <= T ->
  log_delete H st offs = Ok (st2, r) -> TS st2 /\ wcarry st2 <= T.
Proof.
  intros HK HT Hc Hpt Hm Hb Hw E. pose proof HK as (HI & HX & Hp). set (p := cparams c) in *. destruct r as [deleted size].
  pose proof HI as (Hne & HF & Hch & Hv & c' & Hc' & Hhead). rewrite Hc in Hc'. injection Hc' as <-.
  unfold log_delete, get_cfg in E. rewrite Hc in E. cbn [bind] in E.
  destruct (cro c) eqn:Hro; [discriminate|]. specialize (Hhead eq_refl).
  destruct offs as [|o0 orest]; [injection E as <- _; split; assumption|].
  destruct (zmin_list (o0 :: orest) <? 0); [discriminate|].
  destruct (seg_get (bases (segs st)) (zmin_list (o0 :: orest))) as [i|]; [|discriminate]. cbn [bind] in E.
  destruct (znth (segs st) i) as [src|] eqn:Esrc; [|discriminate].
  destruct (open_log_reader src) as [srcv|]; [|discriminate]. cbn [bind] in E.
  assert (Hsrc_in : In src (segs st)) by (eapply znth_in; eauto).
  pose proof (tmono_seg_recs st src Hm Hsrc_in) as Hms.
  destruct (filter (fun m => zmem (moff m) (o0 :: orest)) (srecs src)) as [|d0 dr]; [injection E as <- _; split; assumption|].
  pose proof (Forall_firstn' (ts_faithful_seg) (Z.to_nat i) _ HT) as HTf.
  pose proof (Forall_skipn' (ts_faithful_seg) (S (Z.to_nat i)) _ HT) as HTs.
  set (survive := filter (fun m => negb (zmem (moff m) (o0 :: orest))) (srecs src)) in *.
  assert (Hsm : tmono 0 survive) by (apply tmono_filter; exact Hms).
  assert (Hrw : forall mv iv, ts_faithful_seg (rewritten H p mv iv survive)) by (intros; apply tf_rewritten; assumption).
  (* the carried time of the source segment is the time of a live message, or the old carry *)
  assert (Hnt : is_last st i = true -> next_time st src <= T).
  { intros Hil. unfold next_time. destruct (last_opt (head_items src)) as [it|] eqn:El; [|exact Hw].
    assert (Hsrc_hd : last_opt (segs st) = Some src).
    { rewrite last_opt_znth. unfold is_last in Hil. replace (zlen (segs st) - 1) with i by lia. exact Esrc. }
    rewrite Hsrc_hd in Hhead.
    assert (Hsf : ts_faithful_seg src) by (unfold TS in HT; rewrite Forall_forall in HT; now apply HT).
    pose proof (head_faithful src Hhead Hsf) as Hfa.
    destruct (last_opt (srecs src)) as [m|] eqn:Elr.
    - pose proof (last_its_time src _ m Hfa Elr) as Hl. rewrite El in Hl. rewrite Hl. apply Hb.
      eapply all_recs_in_seg; [exact Hsrc_in|now apply last_opt_in].
    - apply last_opt_none in Elr. unfold faithful in Hfa. rewrite Elr in Hfa. destruct (head_items src); discriminate. }
  destruct (is_last st i) eqn:Elast.
  - specialize (Hnt eq_refl). destruct survive as [|s0 sr] eqn:Esv.
    + injection E as <- _. cbn [segs wcarry]. split; [|exact Hnt]. unfold TS. apply Forall_app. split; [exact HTf|]. constructor; [apply tf_new_head|constructor].
    + match type of E with context [if ?b then _ else _] => destruct b end; injection E as <- _; cbn [segs wcarry]; (split; [|exact Hnt]);
        unfold TS; apply Forall_app; (split; [exact HTf|]).
      * constructor; [apply Hrw|]. constructor; [apply tf_new_head|constructor].
      * constructor; [apply Hrw|constructor].
  - destruct survive as [|s0 sr] eqn:Esv; injection E as <- _; cbn [segs set_segs wcarry]; (split; [|exact Hw]); unfold TS.
    + apply Forall_app. split; assumption.
    + apply Forall_replace_nth; [exact HT|apply Hrw].
Qed.

(* ---------- reads *)

Definition TRel (c : cfg) (st st1 : lstate) : Prop :=
  KInv (cparams c) st -> TS st -> opened st = Some c -> ctimes c = true -> tmono 0 (all_recs (segs st)) ->
  KInv (cparams c) st1 /\ TS st1 /\ opened st1 = Some c /\ all_recs (segs st1) = all_recs (segs st).

Lemma TRel_refl c st : TRel c st st.
Proof. intros HK HT Hc Hp Hm. split; [exact HK|]. split; [exact HT|]. split; [exact Hc|reflexivity]. Qed.

Lemma TRel_trans c a b d : TRel c a b -> TRel c b d -> TRel c a d.
Proof.
  intros H1 H2 HK HT Hc Hp Hm. destruct (H1 HK HT Hc Hp Hm) as (K1 & T1 & O1 & A1).
  destruct (H2 K1 T1 O1 Hp ltac:(rewrite A1; exact Hm)) as (K2 & T2 & O2 & A2). split; [exact K2|]. split; [exact T2|]. split; [exact O2|congruence].
Qed.

Lemma TRel_wi c st i st1 s items : with_index H c st i = Ok (st1, s, items) -> TRel c st st1.
Proof.
  intros Hw HK HT Hc Hp Hm. destruct (with_index_exact H c st i st1 s items HK Hc Hw) as [_ K1].
  destruct (with_index_ts H c st i st1 s items HK HT Hc Hp Hm Hw) as [_ T1].
  destruct HK as (HI & _). destruct (with_index_preserves H c st i st1 s items HI Hc Hw) as (_ & A1 & O1 & _).
  split; [exact K1|]. split; [exact T1|]. split; [exact O1|]. unfold abs in A1. now injection A1.
Qed.

Definition WRel (c : cfg) (st st1 : lstate) : Prop := wcarry st1 = wcarry st.

Lemma WRel_wi c st i st1 s items : with_index H c st i = Ok (st1, s, items) -> WRel c st st1.
Proof.
  unfold with_index, WRel. destruct (znth (segs st) i); [|discriminate]. destruct (lvirt st); [intros E; now injection E as <- _ _|].
  destruct ((i =? zlen (segs st) - 1) && negb (cro c)); [intros E; now injection E as <- _ _|].
  destruct (ensure_index H (cparams c) (cnewver c) s0) as [[s2 it2]|]; [|discriminate]. cbn [bind]. intros E. now injection E as <- _ _.
Qed.

Lemma WRel_refl c st : WRel c st st. Proof. reflexivity. Qed.
Lemma WRel_trans c a b d : WRel c a b -> WRel c b d -> WRel c a d. Proof. unfold WRel. congruence. Qed.


(* ---------- Close / Open / maintenance *)

Definition TQ (s : seg) : Prop := tmono 0 (srecs s) /\ ts_faithful_seg s.

Lemma segment_recover_tq p s s' : ptimes p = true -> seg_inv s -> TQ s -> segment_recover H p s = Ok s' -> TQ s'.
Proof.
  intros Hp Hi [Hm Hf]. unfold segment_recover. rewrite (seg_inv_open_log s Hi). cbn [bind].
  destruct (sidx s) as [ix|] eqn:Esi; [|intros E; injection E as <-; split; assumption].
  destruct (open_idx_reader s ix) as [items|]; [|intros E; injection E as <-; split; [exact Hm|apply tf_none]].
  destruct (list_eqb item_eqb items (derive H p (sver s) (srecs s))); intros E; injection E as <-; [split; assumption|].
  split; [exact Hm|now apply tf_derive].
Qed.

Lemma segment_migrate_tq p v s s' : ptimes p = true -> seg_inv s -> TQ s -> segment_migrate H p v v s = Ok s' -> TQ s'.
Proof.
  intros Hp Hi [Hm Hf]. unfold segment_migrate. rewrite (seg_inv_open_log s Hi). cbn [bind].
  destruct (ver_eqb (sver s) v); intros E; injection E as <-; [split; assumption|].
  split; [exact Hm|]. intros iv items E. cbn in E. injection E as <- <-. right. unfold faithful, derive. cbn [srecs].
  now apply derive_faithful.
Qed.

Lemma open_writer_tq c s s' : ctimes c = true -> seg_inv s -> TQ s -> open_writer H c s = Ok s' -> TQ s'.
Proof.
  intros Hp Hi [Hm Hf]. pose proof Hi as (Hs & Hnn & Hfb & Hix & Hb). unfold open_writer.
  set (s1 := if seg_log_size s =? 0 then mkSeg (sbase s) (cnewver c) (srecs s) (sidx s) else s).
  assert (H1 : (if seg_log_size s =? 0 then Ok (mkSeg (sbase s) (cnewver c) (srecs s) (sidx s))
                else do _ <- open_log_reader s; Ok s) = Ok s1).
  { unfold s1. destruct (seg_log_size s =? 0); [reflexivity|]. now rewrite (seg_inv_open_log s Hi). }
  rewrite H1. cbn [bind].
  assert (Hs1 : seg_inv s1 /\ TQ s1).
  { unfold s1. destruct (seg_log_size s =? 0) eqn:E0; [|split; [assumption|split; assumption]].
    assert (Er : srecs s = []) by (apply (log_size_small (sver s)); unfold seg_log_size in E0; lia).
    split.
    - repeat split; cbn [srecs sbase sver sidx]; try assumption.
      intros iv items Ei. destruct (Hix iv items Ei) as [->|Hmm]; [left; reflexivity|]. left. rewrite Er in Hmm. now apply items_match_nil in Hmm.
    - split; [exact Hm|]. intros iv items Ei. cbn [sidx] in Ei. exact (Hf iv items Ei). }
  destruct Hs1 as [Hi1 [Hm1 Hf1]].
  assert (H2 : forall s2, (if 8 <? seg_log_size s1 then do r <- ensure_index H (cparams c) (cnewver c) s1; Ok (fst r) else Ok s1) = Ok s2 -> TQ s2).
  { intros s2. destruct (8 <? seg_log_size s1).
    - destruct (ensure_index H (cparams c) (cnewver c) s1) as [[s2' its2]|] eqn:Ee; [|discriminate]. cbn [bind fst].
      intros E. injection E as <-. unfold ensure_index in Ee. destruct (needs_reindex s1).
      + unfold reindex in Ee. rewrite (seg_inv_open_log s1 Hi1) in Ee. cbn [bind] in Ee. injection Ee as <- _.
        split; [exact Hm1|now apply tf_derive].
      + destruct (sidx s1) as [ix|]; [|discriminate]. destruct (open_idx_reader s1 ix); [|discriminate]. cbn [bind] in Ee. injection Ee as <- _.
        split; assumption.
    - intros E. injection E as <-. split; assumption. }
  destruct (if 8 <? seg_log_size s1 then do r <- ensure_index H (cparams c) (cnewver c) s1; Ok (fst r) else Ok s1) as [s2|]; [|discriminate].
  destruct (H2 s2 eq_refl) as [Hm2 Hf2]. cbn [bind].
  destruct (sidx s2) as [[iv items]|] eqn:Es2; [|intros E; injection E as <-; split; [exact Hm2|apply tf_empty]].
  destruct iv, items; try (intros E; injection E as <-; split; [exact Hm2|apply tf_empty]).
  - destruct (open_idx_reader s2 (V1, i :: items)); [|discriminate]. cbn [bind]. intros E. injection E as <-. split; assumption.
  - cbn [open_idx_reader bind]. intros E. injection E as <-. split; assumption.
  - cbn [open_idx_reader bind]. intros E. injection E as <-. split; assumption.
Qed.

Lemma TQ_all l : tmono 0 (all_recs l) -> Forall ts_faithful_seg l -> Forall TQ l.
Proof.
  intros Hm HF. rewrite Forall_forall in *. intros s Hs. split; [now apply (tmono_seg 0 l)|now apply HF].
Qed.

Lemma TQ_ts l : Forall TQ l -> Forall ts_faithful_seg l.
Proof. intros HF. rewrite Forall_forall in *. intros s Hs. exact (proj2 (HF s Hs)). Qed.

Theorem log_open_ts st c0 st' :
  closed_dir st -> segs st <> [] -> ctimes c0 = true ->
  tmono 0 (all_recs (segs st)) -> Forall ts_faithful_seg (segs st) ->
  log_open H st c0 = Ok st' -> TS st'.
Proof.
  intros (Ho & Hv & HD) Hne Hpt Hm HT. unfold log_open. rewrite Ho. set (c := norm_cfg c0).
  assert (Hpc : ctimes c = true) by exact Hpt. assert (Hpp : ptimes (cparams c) = true) by exact Hpt.
  destruct HD as [HF Hch]. pose proof (TQ_all _ Hm HT) as HQ.
  destruct (segs st) as [|s0 r0] eqn:Esegs; [congruence|]. rewrite <- Esegs in *.
  destruct (cro c) eqn:Ero.
  - rewrite Esegs. rewrite <- Esegs. destruct (if ccheck c || crecover c then dir_check H (cparams c) st else Ok tt); [|discriminate].
    cbn [bind]. intros E. injection E as <-. exact HT.
  - rewrite Esegs. rewrite <- Esegs.
    destruct (if crecover c then map_last (segment_recover H (cparams c)) (segs st)
              else if ccheck c then (do _ <- dir_check H (cparams c) st; Ok (segs st)) else Ok (segs st)) as [l1|] eqn:E1; [|discriminate].
    cbn [bind].
    assert (H1 : Forall seg_inv l1 /\ Forall TQ l1).
    { destruct (crecover c).
      - destruct (map_last_ok (segment_recover H (cparams c)) (segs st) HF (recover_step_ok H (cparams c))) as (l' & E & HF' & _).
        rewrite E in E1. injection E1 as <-. split; [exact HF'|].
        eapply (map_last_Q (segment_recover H (cparams c))); [|exact HF|exact HQ|exact E].
        intros s s'. now apply segment_recover_tq.
      - destruct (ccheck c).
        + destruct (dir_check H (cparams c) st); [|discriminate]. cbn [bind] in E1. injection E1 as <-. split; assumption.
        + injection E1 as <-. split; assumption. }
    destruct H1 as [HF1 HQ1].
    destruct (if ceager c then map_res (segment_migrate H (cparams c) (cnewver c) (cnewver c)) l1 else Ok l1) as [l2|] eqn:E2; [|discriminate].
    cbn [bind].
    assert (H2 : Forall seg_inv l2 /\ Forall TQ l2).
    { destruct (ceager c).
      - destruct (map_res_ok (segment_migrate H (cparams c) (cnewver c) (cnewver c)) l1 HF1 (migrate_step_ok H (cparams c) (cnewver c))) as (l' & E & HF' & _).
        rewrite E in E2. injection E2 as <-. split; [exact HF'|].
        eapply (map_res_Q (segment_migrate H (cparams c) (cnewver c) (cnewver c))); [|exact HF1|exact HQ1|exact E].
        intros s s'. now apply segment_migrate_tq.
      - injection E2 as <-. split; assumption. }
    destruct H2 as [HF2 HQ2].
    destruct (map_last (open_writer H c) l2) as [l3|] eqn:E3; [|discriminate]. cbn [bind]. intros E. injection E as <-. unfold TS. cbn [segs].
    apply TQ_ts. eapply (map_last_Q (open_writer H c)); [|exact HF2|exact HQ2|exact E3].
    intros s s'. now apply open_writer_tq.
Qed.

Theorem rm_index_ts l i which all : Forall ts_faithful_seg l -> Forall ts_faithful_seg (rm_index_at l i which all).
Proof.
  intros HX. revert i. induction HX as [|s r Hs HX IH]; intros i; cbn [rm_index_at]; constructor; [|apply IH].
  destruct (all || zmem i which); [apply tf_none|exact Hs].
Qed.

Theorem dir_migrate_ts p v st st' :
  ptimes p = true -> DirInv (segs st) -> tmono 0 (all_recs (segs st)) -> Forall ts_faithful_seg (segs st) ->
  dir_migrate H p v st = Ok st' -> Forall ts_faithful_seg (segs st').
Proof.
  intros Hp [HF _] Hm HT. unfold dir_migrate. destruct (map_res (segment_migrate H p v v) (segs st)) as [l|] eqn:E; [|discriminate].
  cbn [bind]. intros E2. injection E2 as <-. cbn [segs set_segs]. apply TQ_ts.
  eapply (map_res_Q (segment_migrate H p v v)); [|exact HF|exact (TQ_all _ Hm HT)|exact E]. intros s s'. now apply segment_migrate_tq.
Qed.

Theorem dir_recover_ts p st st' :
  ptimes p = true -> DirInv (segs st) -> tmono 0 (all_recs (segs st)) -> Forall ts_faithful_seg (segs st) ->
  dir_recover H p st = Ok st' -> Forall ts_faithful_seg (segs st').
Proof.
  intros Hp [HF _] Hm HT. unfold dir_recover. destruct (map_last (segment_recover H p) (segs st)) as [l|] eqn:E; [|discriminate].
  cbn [bind]. intros E2. injection E2 as <-. cbn [segs set_segs]. apply TQ_ts.
  eapply (map_last_Q (segment_recover H p)); [|exact HF|exact (TQ_all _ Hm HT)|exact E]. intros s s'. now apply segment_recover_tq.
Qed.


(* ---------- whole histories whose publish times never decrease *)

Definition tstep_ok (T : Z) (op : hop) : Prop := match op with HPub ms => tmono T ms | _ => True end.
Definition T_next (T : Z) (op : hop) : Z := match op with HPub ms => last_time T ms | _ => T end.

Lemma T_next_ge T op : tstep_ok T op -> T <= T_next T op.
Proof. destruct op; cbn; try lia. intros Hm. exact (proj1 (tmono_last_bound T ms Hm)). Qed.

Definition log_get_T := log_get_G H TRel TRel_refl TRel_trans TRel_wi.
Definition log_get_by_key_T := log_get_by_key_G H TRel TRel_refl TRel_trans TRel_wi.
Definition log_consume_by_key_T := log_consume_by_key_G H TRel TRel_refl TRel_trans TRel_wi.
Definition log_get_by_time_T := log_get_by_time_G H TRel TRel_refl TRel_trans TRel_wi.
Definition log_next_T := log_next_G H TRel TRel_refl TRel_trans TRel_wi.
Definition log_stat_T := log_stat_G H TRel TRel_refl TRel_trans TRel_wi.
Definition log_consume_T := log_consume_G H TRel TRel_refl TRel_trans TRel_wi.
Definition log_get_W := log_get_G H WRel WRel_refl WRel_trans WRel_wi.
Definition log_get_by_key_W := log_get_by_key_G H WRel WRel_refl WRel_trans WRel_wi.
Definition log_consume_by_key_W := log_consume_by_key_G H WRel WRel_refl WRel_trans WRel_wi.
Definition log_get_by_time_W := log_get_by_time_G H WRel WRel_refl WRel_trans WRel_wi.
Definition log_next_W := log_next_G H WRel WRel_refl WRel_trans WRel_wi.
Definition log_stat_W := log_stat_G H WRel WRel_refl WRel_trans WRel_wi.
Definition log_consume_W := log_consume_G H WRel WRel_refl WRel_trans WRel_wi.

Lemma live_abs st : live (abs st) = all_recs (segs st).
Proof. reflexivity. Qed.

(* a read: TS and the carried time are kept *)
Lemma tread_step {A} p T (f : lstate -> res (lstate * A)) st :
  (forall st1 r c, opened st = Some c -> f st = Ok (st1, r) -> TRel c st st1) ->
  (forall st1 r c, opened st = Some c -> f st = Ok (st1, r) -> WRel c st st1) ->
  (forall st1 r c, opened st = Some c -> f st = Ok (st1, r) -> R c st st1) ->
  (opened st = None -> exists e, f st = Err e) ->
  TGood p T st ->
  TSp p (fst (lift st (f st))) /\ (ptimes p = true -> wcarry (fst (lift st (f st))) <= T).
Proof.
  intros HTR HWR HR Hcl (HKG & HTS & Hm & Hb & Hw & HT0). destruct (f st) as [[st1 r]|e] eqn:E; cbn [lift fst]; [|split; assumption].
  pose proof HKG as (HG & HX & Hp).
  destruct HG as [(Ho & _)|[HI|HV]].
  - destruct (Hcl Ho) as (e & E'). discriminate.
  - pose proof HI as (_ & _ & _ & _ & c & Hc & _). pose proof (Hp c Hc) as Hpc.
    assert (HK : KInv (cparams c) st) by (rewrite Hpc; split; [exact HI|split; assumption]).
    pose proof (HWR st1 r c Hc eq_refl) as Hwc. unfold WRel in Hwc. split; [|intros Hpt; rewrite Hwc; now apply Hw].
    intros Hpt. assert (Hct : ctimes c = true) by (rewrite <- Hpc in Hpt; exact Hpt).
    destruct (HTR st1 r c Hc eq_refl HK (HTS Hpt) Hc Hct Hm) as (_ & T1 & _). exact T1.
  - pose proof HV as (Hv & _ & c & Hc & _). destruct (HR st1 r c Hc eq_refl) as [_ Heq]. rewrite (Heq Hv). split; assumption.
Qed.

Ltac closed_err' := intros Ho; unfold get_cfg; rewrite Ho; eexists; reflexivity.

Theorem thstep_good p T st op :
  TGood p T st -> uses p op -> tstep_ok T op -> TGood p (T_next T op) (fst (hstep H st op)).
Proof.
  intros HTG Hu Hok. pose proof HTG as (HKG & HTS & Hm & Hb & Hw & HT0). pose proof HKG as (HG & HX & Hp).
  pose proof (T_next_ge T op Hok) as HTle.
  destruct (hstep_good H st op HG) as [HG' HA'].
  split; [now apply khstep_good|].
  (* the live messages afterwards: monotone, bounded *)
  assert (Hlive : tmono 0 (all_recs (segs (fst (hstep H st op)))) /\
                  forall m, In m (all_recs (segs (fst (hstep H st op)))) -> mtime m <= T_next T op).
  { rewrite <- !live_abs, HA'. destruct op; cbn [spec_step T_next tstep_ok] in *;
      try (split; [exact Hm|intros m Hin; specialize (Hb m Hin); lia]).
    - (* Publish *)
      destruct (snd (hstep H st (HPub ms))) as [r| | | | |] eqn:Eo; try (split; [exact Hm|intros m Hin; specialize (Hb m Hin); lia]).
      destruct r as [n|e]; [|split; [exact Hm|intros m Hin; specialize (Hb m Hin); lia]].
      unfold spec_publish. cbn [live].
      set (new := map (fun om => mkMsg (fst om) (mtime (snd om)) (mkey (snd om)) (mval (snd om))) (combine (seq_from (anext (abs st)) (length ms)) ms)).
      assert (Hnt : map mtime new = map mtime ms).
      { unfold new. generalize (anext (abs st)). clear. induction ms as [|x r IH]; intros z; [reflexivity|]. cbn. f_equal. apply IH. }
      destruct (tmono_last_bound T ms Hok) as [_ Hlb].
      split.
      + apply (tmono_snoc_app 0 _ new T Hm Hb HT0). eapply tmono_times; [symmetry; exact Hnt|exact Hok].
      + intros m Hin. apply in_app_or in Hin. destruct Hin as [Hin|Hin]; [specialize (Hb m Hin); lia|].
        assert (Hmt : In (mtime m) (map mtime ms)) by (rewrite <- Hnt; now apply in_map).
        apply in_map_iff in Hmt. destruct Hmt as (x & Ex & Hx). rewrite <- Ex. now apply Hlb.
    - (* Delete *)
      destruct (snd (hstep H st (HDel offs))) as [| |r| | |] eqn:Eo; try (split; [exact Hm|intros m Hin; specialize (Hb m Hin); lia]).
      destruct r as [[deleted sz]|e]; [|split; [exact Hm|intros m Hin; specialize (Hb m Hin); lia]].
      cbn [live]. unfold remove_msgs. split; [now apply tmono_filter|]. intros m Hin. apply filter_In in Hin. destruct Hin as [Hin _]. specialize (Hb m Hin). lia. }
  destruct Hlive as [Hm' Hb'].
  assert (Hrest : TSp p (fst (hstep H st op)) /\ (ptimes p = true -> wcarry (fst (hstep H st op)) <= T_next T op)).
  { destruct op; cbn [hstep uses T_next tstep_ok] in *.
    - (* Open *)
      destruct (log_open H st c) as [st'|e] eqn:E; cbn [lift0 fst]; [|split; assumption].
      assert (Hw0 : wcarry st' = 0).
      { unfold log_open in E. destruct (opened st); [discriminate|]. destruct (segs st); destruct (cro (norm_cfg c)).
        - injection E as <-. reflexivity.
        - destruct (open_writer H (norm_cfg c) _); [|discriminate]. cbn [bind] in E. injection E as <-. reflexivity.
        - destruct (if ccheck (norm_cfg c) || crecover (norm_cfg c) then _ else _); [|discriminate]. cbn [bind] in E. injection E as <-. reflexivity.
        - destruct (if crecover (norm_cfg c) then _ else _); [|discriminate]. cbn [bind] in E.
          destruct (if ceager (norm_cfg c) then _ else _); [|discriminate]. cbn [bind] in E.
          destruct (map_last _ _); [|discriminate]. cbn [bind] in E. injection E as <-. reflexivity. }
      split; [|intros _; rewrite Hw0; exact HT0]. intros Hpt. specialize (HTS Hpt).
      destruct HG as [(Ho & Hv & HD)|[HI|HV]].
      + destruct (segs st) as [|s0 r0] eqn:Es.
        * unfold log_open in E. rewrite Ho, Es in E. destruct (cro (norm_cfg c)).
          -- injection E as <-. unfold TS. cbn [segs]. constructor; [|constructor]. intros iv items Ei. cbn in Ei. injection Ei as <- <-. now left.
          -- destruct (open_writer H (norm_cfg c) (mkSeg 0 V1 [] None)) as [w|] eqn:Ew; [|discriminate]. cbn [bind] in E. injection E as <-.
             unfold TS. cbn [segs]. constructor; [|constructor].
             assert (Hct : ctimes (norm_cfg c) = true) by (rewrite <- Hu in Hpt; exact Hpt).
             refine (proj2 (open_writer_tq (norm_cfg c) _ w Hct (seg_inv_empty0) _ Ew)). split; [exact I|intros iv items Ei; discriminate].
        * apply (log_open_ts st c st'); try (rewrite Es; discriminate).
          -- split; [exact Ho|]. split; [exact Hv|]. rewrite Es. exact HD.
          -- rewrite <- Hu in Hpt. exact Hpt.
          -- rewrite Es. exact Hm.
          -- rewrite Es. unfold TS in HTS. rewrite Es in HTS. exact HTS.
          -- exact E.
      + destruct HI as (_ & _ & _ & _ & c' & Hc' & _). unfold log_open in E. rewrite Hc' in E. discriminate.
      + destruct HV as (_ & _ & c' & Hc' & _). unfold log_open in E. rewrite Hc' in E. discriminate.
    - (* Close *)
      destruct (log_close st) as [st'|e] eqn:E; cbn [lift0 fst]; [|split; assumption].
      unfold log_close in E. destruct (opened st); [|discriminate]. injection E as <-. cbn [segs wcarry]. split; [|intros _; exact HT0].
      intros Hpt. specialize (HTS Hpt). unfold TS. cbn [segs]. destruct (lvirt st); [constructor|exact HTS].
    - (* Publish *)
      assert (Hpub : forall ms0 st' n, tmono T ms0 -> log_publish H st ms0 = Ok (st', n) ->
                TSp p st' /\ (ptimes p = true -> wcarry st' <= last_time T ms0)).
      { intros ms0 st' n Hok0 E. destruct HG as [(Ho & _)|[HI|HV]].
        + unfold log_publish, get_cfg in E. rewrite Ho in E. discriminate.
        + pose proof HI as (_ & _ & _ & _ & c & Hc & _). pose proof (Hp c Hc) as Hpc.
          assert (HK : KInv (cparams c) st) by (rewrite Hpc; split; [exact HI|split; assumption]).
          assert (Hboth : ptimes p = true -> TS st' /\ wcarry st' <= last_time T ms0).
          { intros Hpt. assert (Hct : ctimes c = true) by (rewrite <- Hpc in Hpt; exact Hpt).
            exact (log_publish_ts c st ms0 st' n T HK (HTS Hpt) Hc Hct Hm Hb (Hw Hpt) HT0 Hok0 E). }
          split; [intros Hpt; exact (proj1 (Hboth Hpt))|intros Hpt; exact (proj2 (Hboth Hpt))].
        + destruct HV as (_ & _ & c & Hc & Hro). unfold log_publish, get_cfg in E. rewrite Hc in E. cbn [bind] in E. rewrite Hro in E. discriminate. }
      unfold pub_step. destruct (log_publish H st ms) as [[st' n]|e] eqn:E; cbn [fst]; [exact (Hpub ms st' n Hok E)|].
      destruct e; try (split; [assumption|intros Hpt; specialize (Hw Hpt); lia]).
      unfold rolled. destruct (log_publish H st []) as [[st0 n0]|e0] eqn:E0; [|split; [assumption|intros Hpt; specialize (Hw Hpt); lia]].
      destruct (Hpub [] st0 n0 I E0) as [A B]. split; [exact A|]. intros Hpt. specialize (B Hpt). unfold last_time in B at 1. cbn in B. lia.
    - (* Delete *)
      destruct (log_delete H st offs) as [[st' r]|e] eqn:E; cbn [lift fst]; [|split; assumption].
      destruct HG as [(Ho & _)|[HI|HV]].
      + unfold log_delete, get_cfg in E. rewrite Ho in E. discriminate.
      + pose proof HI as (_ & _ & _ & _ & c & Hc & _). pose proof (Hp c Hc) as Hpc.
        assert (HK : KInv (cparams c) st) by (rewrite Hpc; split; [exact HI|split; assumption]).
        assert (Hboth : ptimes p = true -> TS st' /\ wcarry st' <= T).
        { intros Hpt. assert (Hct : ctimes c = true) by (rewrite <- Hpc in Hpt; exact Hpt).
          exact (log_delete_ts c st offs st' r T HK (HTS Hpt) Hc Hct Hm Hb (Hw Hpt) E). }
        split; [intros Hpt; exact (proj1 (Hboth Hpt))|intros Hpt; exact (proj2 (Hboth Hpt))].
      + destruct HV as (_ & _ & c & Hc & Hro). unfold log_delete, get_cfg in E. rewrite Hc in E. cbn [bind] in E. rewrite Hro in E. discriminate.
    - pose proof (tread_step p T (fun s => log_consume H s off max) st) as HR. cbv beta in HR.
      destruct (lift st (log_consume H st off max)) as [s r] eqn:El. cbn [fst] in *. apply HR; try assumption.
      + intros st1 r1 c Hc E. eapply log_consume_T; eassumption.
      + intros st1 r1 c Hc E. eapply log_consume_W; eassumption.
      + intros st1 r1 c Hc E. eapply log_consume_R; eassumption.
      + unfold log_consume. closed_err'.
    - pose proof (tread_step p T (fun s => log_get H s off) st) as HR. cbv beta in HR.
      destruct (lift st (log_get H st off)) as [s r] eqn:El. cbn [fst] in *. apply HR; try assumption.
      + intros st1 r1 c Hc E. eapply log_get_T; eassumption.
      + intros st1 r1 c Hc E. eapply log_get_W; eassumption.
      + intros st1 r1 c Hc E. eapply log_get_R; eassumption.
      + unfold log_get. closed_err'.
    - pose proof (tread_step p T (fun s => log_get_by_key H s k) st) as HR. cbv beta in HR.
      destruct (lift st (log_get_by_key H st k)) as [s r] eqn:El. cbn [fst] in *. apply HR; try assumption.
      + intros st1 r1 c Hc E. eapply log_get_by_key_T; eassumption.
      + intros st1 r1 c Hc E. eapply log_get_by_key_W; eassumption.
      + intros st1 r1 c Hc E. eapply log_get_by_key_R; eassumption.
      + unfold log_get_by_key. closed_err'.
    - pose proof (tread_step p T (fun s => log_consume_by_key H s k off max) st) as HR. cbv beta in HR.
      destruct (lift st (log_consume_by_key H st k off max)) as [s r] eqn:El. cbn [fst] in *. apply HR; try assumption.
      + intros st1 r1 c Hc E. eapply log_consume_by_key_T; eassumption.
      + intros st1 r1 c Hc E. eapply log_consume_by_key_W; eassumption.
      + intros st1 r1 c Hc E. eapply log_consume_by_key_R; eassumption.
      + unfold log_consume_by_key. closed_err'.
    - pose proof (tread_step p T (fun s => log_get_by_time H s ts) st) as HR. cbv beta in HR.
      destruct (lift st (log_get_by_time H st ts)) as [s r] eqn:El. cbn [fst] in *. apply HR; try assumption.
      + intros st1 r1 c Hc E. eapply log_get_by_time_T; eassumption.
      + intros st1 r1 c Hc E. eapply log_get_by_time_W; eassumption.
      + intros st1 r1 c Hc E. eapply log_get_by_time_R; eassumption.
      + unfold log_get_by_time. closed_err'.
    - pose proof (tread_step p T (fun s => log_next H s) st) as HR. cbv beta in HR.
      destruct (lift st (log_next H st)) as [s r] eqn:El. cbn [fst] in *. apply HR; try assumption.
      + intros st1 r1 c Hc E. eapply log_next_T; eassumption.
      + intros st1 r1 c Hc E. eapply log_next_W; eassumption.
      + intros st1 r1 c Hc E. eapply log_next_R; eassumption.
      + unfold log_next. closed_err'.
    - pose proof (tread_step p T (fun s => log_stat H s) st) as HR. cbv beta in HR.
      destruct (lift st (log_stat H st)) as [s r] eqn:El. cbn [fst] in *. apply HR; try assumption.
      + intros st1 r1 c Hc E. eapply log_stat_T; eassumption.
      + intros st1 r1 c Hc E. eapply log_stat_W; eassumption.
      + intros st1 r1 c Hc E. eapply log_stat_R; eassumption.
      + unfold log_stat. closed_err'.
    - unfold when_closed. destruct (opened st) eqn:Ho; cbn [lift0 fst]; [split; assumption|].
      cbn [segs set_segs wcarry]. split; [|exact Hw]. intros Hpt. unfold TS. cbn [segs]. apply rm_index_ts. exact (HTS Hpt).
    - subst p0. unfold when_closed. destruct (opened st) eqn:Ho; cbn [fst]; [split; assumption|].
      destruct (dir_migrate H p v st) as [st'|] eqn:E; cbn [lift0 fst]; [|split; assumption].
      assert (Hwc : wcarry st' = wcarry st) by (unfold dir_migrate in E; destruct (map_res _ _); [|discriminate]; cbn [bind] in E; injection E as <-; reflexivity).
      split; [|intros Hpt; rewrite Hwc; now apply Hw]. intros Hpt.
      destruct HG as [(_ & _ & HD)|[HI|HV]].
      + eapply dir_migrate_ts; try eassumption. exact (HTS Hpt).
      + destruct HI as (_ & _ & _ & _ & c & Hc & _). congruence.
      + destruct HV as (_ & _ & c & Hc & _). congruence.
    - subst p0. unfold when_closed. destruct (opened st) eqn:Ho; cbn [fst]; [split; assumption|].
      destruct (dir_recover H p st) as [st'|] eqn:E; cbn [lift0 fst]; [|split; assumption].
      assert (Hwc : wcarry st' = wcarry st) by (unfold dir_recover in E; destruct (map_last _ _); [|discriminate]; cbn [bind] in E; injection E as <-; reflexivity).
      split; [|intros Hpt; rewrite Hwc; now apply Hw]. intros Hpt.
      destruct HG as [(_ & _ & HD)|[HI|HV]].
      + eapply dir_recover_ts; try eassumption. exact (HTS Hpt).
      + destruct HI as (_ & _ & _ & _ & c & Hc & _). congruence.
      + destruct HV as (_ & _ & c & Hc & _). congruence. }
  destruct Hrest as [HTS' Hw'].
  split; [exact HTS'|]. split; [exact Hm'|]. split; [exact Hb'|]. split; [exact Hw'|lia].
Qed.

(* every state reached by a history that keeps its index options and publishes non-decreasing, non-negative times *)
Fixpoint thist_ok (T : Z) (ops : list hop) : Prop :=
  match ops with [] => True | op :: r => tstep_ok T op /\ thist_ok (T_next T op) r end.

Fixpoint T_final (T : Z) (ops : list hop) : Z :=
  match ops with [] => T | op :: r => T_final (T_next T op) r end.

Theorem thistory p ops : forall T st,
  TGood p T st -> Forall (uses p) ops -> thist_ok T ops -> TGood p (T_final T ops) (fst (hrun H st ops)).
Proof.
  induction ops as [|op r IH]; intros T st HG Hu Hok; [exact HG|]. apply Forall_cons_iff in Hu. destruct Hu as [Hu Hur]. destruct Hok as [Hok Hokr].
  cbn [hrun T_final]. pose proof (thstep_good p T st op HG Hu Hok) as HG1. destruct (hstep H st op) as [s1 o]. cbn [fst] in HG1.
  specialize (IH _ s1 HG1 Hur Hokr). destruct (hrun H s1 r) as [s2 os]. exact IH.
Qed.

(* GetByTime on every state reached by such a history *)
Theorem get_by_time_on_monotone_histories p ops c ts :
  Forall (uses p) ops -> thist_ok 0 ops ->
  let st := fst (hrun H init_state ops) in
  opened st = Some c -> lvirt st = false ->
  check_get_by_time (abs st) (ctimes c) ts (obs_get (log_get_by_time H st ts)) = true.
Proof.
  intros Hu Hok st Hc Hv. destruct (thistory p ops 0 init_state (tgood_init p) Hu Hok) as (HKG & HTS & Hm & _). fold st in HKG, HTS, Hm.
  pose proof HKG as (HG & HX & Hp). pose proof (Hp c Hc) as Hpc.
  assert (HI : Inv st).
  { destruct HG as [(Ho & _)|[HI|(Hv' & _)]]; [congruence|exact HI|congruence]. }
  assert (HK : KInv (cparams c) st) by (rewrite Hpc; split; [exact HI|split; assumption]).
  destruct (ctimes c) eqn:Hct.
  - assert (Hts : TS st) by (apply HTS; rewrite <- Hpc; exact Hct).
    pose proof (log_get_by_time_correct H c st ts HK Hts Hc Hm) as Hr. rewrite Hct in Hr. exact Hr.
  - unfold log_get_by_time, get_cfg. rewrite Hc. cbn [bind]. rewrite Hct. reflexivity.
Qed.

End TimeInv.
