(* DurableDeleteProofs.v — C06, the fsync protocol of Delete: at every step of the complete program of a Delete, every
   file klevdb will read after a power loss - every <base>.log / <base>.index - is entirely on stable storage, except
   the two files of the writing segment (as before the call) and the two header-only files of a writing segment the
   Delete creates; a Delete in the writing segment leaves even that segment's files durable.  The rewritten files are
   fsynced before they are renamed over the segment's names, which is what the proof uses. *)
From KV Require Import Base Model ListAux LogInv CrashDir Durable DurableProofs DurableDelete.
From Coq Require Import ZifyBool ZifyNat.

Definition live (f : fname) : bool := match f with FLog _ | FIdx _ => true | _ => false end.
Definition fdur (x : fstat) : Prop := durable_len x = flen x.

(* every file with a segment name outside E is durable *)
Definition Jl (E : list fname) (t : ftable) : Prop :=
  forall x, In x t -> live (fnm x) = true -> ~ In (fnm x) E -> fdur x.
(* every file named f is durable *)
Definition dur_named (f : fname) (t : ftable) : Prop := forall x, In x t -> fnm x = f -> fdur x.
Definition Jt (t : ftable) : Prop := dur_named FTLog t /\ dur_named FTIdx t.

Lemma Jl_mono E E' t : incl E E' -> Jl E t -> Jl E' t.
Proof. intros Hi HJ x Hx Hl Hn. apply HJ; auto. Qed.

Lemma in_upd t f g y : In y (upd_file t f g) -> exists x, In x t /\ y = (if fname_eqb (fnm x) f then g x else x).
Proof. unfold upd_file. rewrite in_map_iff. intros (x & E & Hx). exists x. split; [exact Hx|now symmetry]. Qed.

(* ---------- single steps *)

Lemma fsync_Jl E t f : Jl E t -> Jl E (d_exec t (DFsync f)).
Proof.
  intros HJ y Hy Hl Hn. cbn [d_exec] in Hy. apply in_upd in Hy. destruct Hy as (x & Hx & ->).
  destruct (fname_eqb (fnm x) f); [reflexivity|]. now apply HJ.
Qed.

Lemma fsync_named g t f : dur_named g t -> dur_named g (d_exec t (DFsync f)).
Proof.
  intros HJ y Hy Hg. cbn [d_exec] in Hy. apply in_upd in Hy. destruct Hy as (x & Hx & ->).
  destruct (fname_eqb (fnm x) f); [reflexivity|]. now apply HJ.
Qed.

Lemma fsync_makes_named t f : dur_named f (d_exec t (DFsync f)).
Proof.
  intros y Hy Hg. cbn [d_exec] in Hy. apply in_upd in Hy. destruct Hy as (x & Hx & ->).
  destruct (fname_eqb (fnm x) f) eqn:Ef; [reflexivity|]. exfalso.
  assert (fname_eqb (fnm x) f = true) by now apply fname_eqb_eq. congruence.
Qed.

Lemma write_tmp_Jl E t f n : live f = false -> Jl E t -> Jl E (d_exec t (DWrite f n)).
Proof.
  intros Hf HJ y Hy Hl Hn. cbn [d_exec] in Hy. apply in_upd in Hy. destruct Hy as (x & Hx & ->).
  destruct (fname_eqb (fnm x) f) eqn:Ef; [|now apply HJ].
  apply fname_eqb_eq in Ef. cbn [fnm] in Hl. rewrite Ef in Hl. congruence.
Qed.

Lemma write_other_named g t f n : f <> g -> dur_named g t -> dur_named g (d_exec t (DWrite f n)).
Proof.
  intros Hne HJ y Hy Hg. cbn [d_exec] in Hy. apply in_upd in Hy. destruct Hy as (x & Hx & ->).
  destruct (fname_eqb (fnm x) f) eqn:Ef; [|now apply HJ].
  apply fname_eqb_eq in Ef. cbn [fnm] in Hg. congruence.
Qed.

Lemma create_tmp_Jl E t f n : live f = false -> Jl E t -> Jl E (d_exec t (DCreate f n)).
Proof.
  intros Hf HJ y Hy Hl Hn. cbn [d_exec] in Hy. apply in_app_or in Hy. destruct Hy as [Hy|[<-|[]]]; [now apply HJ|].
  cbn [fnm] in Hl. congruence.
Qed.

Lemma create_exempt_Jl E t f n : In f E -> Jl E t -> Jl E (d_exec t (DCreate f n)).
Proof.
  intros Hf HJ y Hy Hl Hn. cbn [d_exec] in Hy. apply in_app_or in Hy. destruct Hy as [Hy|[<-|[]]]; [now apply HJ|].
  cbn [fnm] in Hn. contradiction.
Qed.

Lemma create_other_named g t f n : f <> g -> dur_named g t -> dur_named g (d_exec t (DCreate f n)).
Proof.
  intros Hne HJ y Hy Hg. cbn [d_exec] in Hy. apply in_app_or in Hy. destruct Hy as [Hy|[<-|[]]]; [now apply HJ|].
  cbn [fnm] in Hg. congruence.
Qed.

Lemma remove_Jl E t f : Jl E t -> Jl E (x_exec t (XRemove f)).
Proof. intros HJ y Hy. cbn [x_exec] in Hy. apply filter_In in Hy. now apply HJ. Qed.

Lemma remove_named g t f : dur_named g t -> dur_named g (x_exec t (XRemove f)).
Proof. intros HJ y Hy. cbn [x_exec] in Hy. apply filter_In in Hy. now apply HJ. Qed.

Lemma in_rename t a b y :
  In y (x_exec t (XRename a b)) ->
  exists x, In x t /\ fname_eqb (fnm x) b = false /\ y = (if fname_eqb (fnm x) a then mkF b (flen x) (fsyn x) else x).
Proof.
  cbn [x_exec]. rewrite in_map_iff. intros (x & E & Hx). apply filter_In in Hx. destruct Hx as [Hx Hb].
  exists x. split; [exact Hx|]. split; [now destruct (fname_eqb (fnm x) b)|now symmetry].
Qed.

Lemma rename_Jl E t a b : dur_named a t -> Jl E t -> Jl E (x_exec t (XRename a b)).
Proof.
  intros Ha HJ y Hy Hl Hn. apply in_rename in Hy. destruct Hy as (x & Hx & Hb & ->).
  destruct (fname_eqb (fnm x) a) eqn:Ea; [|now apply HJ].
  apply fname_eqb_eq in Ea. specialize (Ha x Hx Ea). unfold fdur, durable_len in *. cbn [fsyn flen]. exact Ha.
Qed.

Lemma rename_named g t a b : live a = false -> live b = true -> live g = false -> dur_named g t -> dur_named g (x_exec t (XRename a b)).
Proof.
  intros Hla Hlb Hlg HJ y Hy Hg. apply in_rename in Hy. destruct Hy as (x & Hx & Hb & ->).
  destruct (fname_eqb (fnm x) a) eqn:Ea; [|now apply HJ].
  cbn [fnm] in Hg. subst g. congruence.
Qed.

(* ---------- the two kinds of steps *)

(* before the swap: fsyncs anywhere, creations and writes only on the temporary files *)
Definition stepA (o : xop) : Prop :=
  match o with
  | XD (DFsync _) => True
  | XD (DCreate f _) | XD (DWrite f _) => live f = false
  | _ => False
  end.

(* the swap: temporary files renamed onto segment names, removals, creation of exempt files *)
Definition stepB (E : list fname) (o : xop) : Prop :=
  match o with
  | XRename a b => live a = false /\ live b = true
  | XRemove _ => True
  | XD (DCreate f _) => In f E /\ live f = true
  | _ => False
  end.

Lemma stepA_Jl E t o : stepA o -> Jl E t -> Jl E (x_exec t o).
Proof.
  destruct o as [[f n|f n|f]| |]; cbn [stepA x_exec]; intros H HJ; try contradiction.
  - now apply create_tmp_Jl. - now apply write_tmp_Jl. - now apply fsync_Jl.
Qed.

Lemma stepB_J E t o : stepB E o -> Jl E t /\ Jt t -> Jl E (x_exec t o) /\ Jt (x_exec t o).
Proof.
  destruct o as [[f n|f n|f]|a b|f]; cbn [stepB]; intros H [HJ [H1 H2]]; try contradiction.
  - destruct H as [Hin Hl]. cbn [x_exec]. split; [now apply create_exempt_Jl|].
    split; apply create_other_named; auto; intro; subst f; discriminate.
  - destruct H as [Hla Hlb]. split.
    + apply rename_Jl; [|exact HJ]. destruct a; try discriminate; assumption.
    + split; apply rename_named; auto.
  - split; [now apply remove_Jl|]. split; now apply remove_named.
Qed.

Lemma runA_Jl E : forall prog t, Forall stepA prog -> Jl E t -> Jl E (x_run t prog).
Proof.
  induction prog as [|o prog IH]; intros t HF HJ; [exact HJ|]. inversion HF; subst. cbn [x_run fold_left].
  apply IH; [assumption|]. now apply stepA_Jl.
Qed.

Lemma runB_J E : forall prog t, Forall (stepB E) prog -> Jl E t /\ Jt t -> Jl E (x_run t prog) /\ Jt (x_run t prog).
Proof.
  induction prog as [|o prog IH]; intros t HF HJ; [exact HJ|]. inversion HF; subst. cbn [x_run fold_left].
  apply IH; [assumption|]. now apply stepB_J.
Qed.

Lemma x_run_app t a b : x_run t (a ++ b) = x_run (x_run t a) b.
Proof. unfold x_run. apply fold_left_app. Qed.

Lemma Forall_firstn {A} (P : A -> Prop) k : forall l, Forall P l -> Forall P (firstn k l).
Proof. induction k as [|k IH]; intros [|x l] H; cbn [firstn]; try constructor; inversion H; subst; auto. Qed.

(* ---------- Segment.Rewrite leaves both temporary files durable *)

Lemma writes_named g f (sizes : list Z) : f <> g -> forall t, dur_named g t -> dur_named g (x_run t (map (fun n => XD (DWrite f n)) sizes)).
Proof.
  intros Hne. induction sizes as [|n r IH]; intros t H; [exact H|]. cbn [map x_run fold_left x_exec].
  apply IH. now apply write_other_named.
Qed.

Lemma rewrite_ops_stepA v p sv : Forall stepA (rewrite_ops v p sv).
Proof.
  unfold rewrite_ops. apply Forall_app. split.
  - constructor; [reflexivity|]. apply Forall_app. split; [|repeat constructor].
    apply Forall_forall. intros o Ho. apply in_map_iff in Ho. destruct Ho as (m & <- & _). reflexivity.
  - constructor; [reflexivity|]. apply Forall_app. split; [|repeat constructor].
    apply Forall_forall. intros o Ho. apply in_map_iff in Ho. destruct Ho as (m & <- & _). reflexivity.
Qed.

Lemma rewrite_ops_Jt v p sv t : Jt (x_run t (rewrite_ops v p sv)).
Proof.
  unfold rewrite_ops. rewrite x_run_app.
  set (t1 := x_run t _).
  assert (H1 : dur_named FTLog t1).
  { unfold t1. cbn [x_run fold_left app]. rewrite fold_left_app. cbn [fold_left x_exec]. apply fsync_makes_named. }
  clearbody t1. cbn [x_run fold_left app]. rewrite fold_left_app. cbn [fold_left]. split.
  - cbn [x_exec]. apply fsync_named.
    rewrite <- (map_map (fun _ : msg => item_size p) (fun n => XD (DWrite FTIdx n))).
    apply (writes_named FTLog FTIdx); [discriminate|]. apply create_other_named; [discriminate|exact H1].
  - cbn [x_exec]. apply fsync_makes_named.
Qed.

(* ---------- the swap steps of CrashDir.delete_prog create nothing but the new writing segment at NextOffset *)

Lemma is_last_last st i src : is_last st i = true -> znth (segs st) i = Some src -> last_opt (segs st) = Some src.
Proof. unfold is_last. intros Hi Hz. rewrite last_opt_znth. replace (zlen (segs st) - 1) with i by lia. exact Hz. Qed.

Definition exempt (st : lstate) : list fname :=
  [FLog (head_base st); FIdx (head_base st); FLog (next_of st); FIdx (next_of st)].

Lemma tr_stepB E v (prog : list fsop) :
  (forall b v', In (CreateLog b v') prog -> In (FLog b) E) -> (forall b, In (CreateIdx b) prog -> In (FIdx b) E) ->
  Forall (stepB E) (flat_map (tr v) prog).
Proof.
  intros HL HI. apply Forall_forall. intros o Ho. apply in_flat_map in Ho. destruct Ho as (f & Hf & Ho).
  destruct f; cbn [tr In] in Ho; repeat (destruct Ho as [<-|Ho]; [cbn [stepB live]; auto|]); try contradiction.
  all: try (split; [eauto|reflexivity]).
Qed.

Ltac in_crunch :=
  split; intros;
  match goal with H : In _ _ |- _ =>
    cbn [In app] in H; repeat (destruct H as [H|H]); try discriminate; try contradiction; try congruence
  end.

Lemma swap_creates st offs :
  (forall b v', In (CreateLog b v') (delete_prog st offs) -> b = next_of st) /\
  (forall b, In (CreateIdx b) (delete_prog st offs) -> b = next_of st).
Proof.
  unfold delete_prog. destruct (opened st) as [c|]; [|in_crunch].
  destruct (cro c); [in_crunch|]. destruct offs as [|o offs]; [in_crunch|].
  set (offs' := o :: offs). destruct (zmin_list offs' <? 0); [in_crunch|].
  destruct (seg_get (bases (segs st)) (zmin_list offs')) as [i|]; [|in_crunch].
  destruct (znth (segs st) i) as [src|] eqn:Hz; [|in_crunch].
  destruct (filter (fun m => zmem (moff m) offs') (srecs src)) as [|d ds]; [in_crunch|].
  destruct (is_last st i) eqn:Hl.
  - assert (Hn : idx_next src (head_items src) = next_of st) by (unfold next_of; now rewrite (is_last_last st i src Hl Hz)).
    rewrite Hn.
    destruct (filter (fun m => negb (zmem (moff m) offs')) (srecs src)) as [|m0 sv].
    + unfold prog_head_all, create_head. in_crunch.
    + unfold create_head, prog_override, prog_rebase.
      destruct (match last_opt (d :: ds) with Some m => moff m =? next_of st - 1 | None => false end), (moff m0 =? sbase src); in_crunch.
  - destruct (filter (fun m => negb (zmem (moff m) offs')) (srecs src)) as [|m0 sv].
    + unfold prog_drop. in_crunch.
    + unfold prog_override, prog_rebase. destruct (moff m0 =? sbase src); in_crunch.
Qed.

Lemma swap_stepB st offs v : Forall (stepB (exempt st)) (flat_map (tr v) (delete_prog st offs)).
Proof.
  destruct (swap_creates st offs) as [HL HI]. apply tr_stepB.
  - intros b v' Hin. rewrite (HL b v' Hin). unfold exempt. cbn [In]. auto.
  - intros b Hin. rewrite (HI b Hin). unfold exempt. cbn [In]. auto.
Qed.

(* ---------- the theorems *)

Lemma sync_stepA b : Forall stepA (map XD (sync_ops b)).
Proof. unfold sync_ops. cbn [map]. repeat constructor. Qed.

(* the shape of the program: steps before the swap (A), which end with the temporary files durable, then the swap (B) *)
Lemma delete_full_shape st offs :
  delete_full st offs = [] \/
  exists pa pb, delete_full st offs = pa ++ pb /\ Forall stepA pa /\ (forall t, Jt (x_run t pa)) /\ Forall (stepB (exempt st)) pb.
Proof.
  unfold delete_full. destruct (opened st) as [c|]; [|now left]. destruct (cro c); [now left|].
  destruct offs as [|o offs]; [now left|]. set (offs' := o :: offs). destruct (zmin_list offs' <? 0); [now left|].
  destruct (seg_get (bases (segs st)) (zmin_list offs')) as [i|]; [|now left].
  destruct (znth (segs st) i) as [src|]; [|now left]. right.
  set (sync := if is_last st i then map XD (sync_ops (sbase src)) else []).
  set (del := filter (fun m => zmem (moff m) offs') (srecs src)).
  set (sv := filter (fun m => negb (zmem (moff m) offs')) (srecs src)).
  set (rw := rewrite_ops _ _ sv). set (sync2 := match del with [] => [] | _ :: _ => sync end).
  exists (sync ++ rw ++ sync2), (flat_map (tr (cnewver c)) (delete_prog st offs')).
  assert (Hs : Forall stepA sync) by (unfold sync; destruct (is_last st i); [apply sync_stepA|constructor]).
  assert (Hs2 : Forall stepA sync2) by (unfold sync2; destruct del; [constructor|exact Hs]).
  split; [now rewrite <- !app_assoc|]. split; [|split].
  - apply Forall_app. split; [exact Hs|]. apply Forall_app. split; [apply rewrite_ops_stepA|exact Hs2].
  - intros t. rewrite !x_run_app. set (t1 := x_run t sync). pose proof (rewrite_ops_Jt (if ckeeprw c then sver src else cnewver c) (cparams c) sv t1) as [H1 H2]. fold rw in H1, H2.
    assert (Hf : forall g l tt, Forall stepA l -> (forall o, In o l -> exists f, o = XD (DFsync f)) -> dur_named g tt -> dur_named g (x_run tt l)).
    { intros g l. induction l as [|x l IH]; intros tt HF Hall Hd; [exact Hd|]. cbn [x_run fold_left]. inversion HF; subst.
      apply IH; [assumption|intros; apply Hall; now right|]. destruct (Hall x (or_introl eq_refl)) as (f & ->). cbn [x_exec]. now apply fsync_named. }
    assert (Hall : forall o, In o sync2 -> exists f, o = XD (DFsync f)).
    { unfold sync2, sync. destruct del; [intros ? []|]. destruct (is_last st i); [|intros ? []].
      unfold sync_ops. cbn [map In]. intros o1 [<-|[<-|[]]]; eexists; reflexivity. }
    split; apply Hf; auto.
  - apply swap_stepB.
Qed.

(* after every step of a Delete, every segment file other than those of the writing segment and of a writing segment
   the Delete creates (two files holding only a header) is entirely on stable storage *)
Theorem delete_steps_keep_durable st offs t k :
  Jl (exempt st) t -> Jl (exempt st) (x_run t (firstn k (delete_full st offs))).
Proof.
  intros HJ. destruct (delete_full_shape st offs) as [->|(pa & pb & -> & HA & HT & HB)]; [now destruct k|].
  rewrite firstn_app, x_run_app.
  destruct (Nat.le_gt_cases (length pa) k) as [Hge|Hlt].
  - rewrite (firstn_all2 pa) by lia. apply (runB_J (exempt st)); [now apply Forall_firstn|]. split; [now apply runA_Jl|apply HT].
  - replace (k - length pa)%nat with O by lia. cbn [firstn x_run fold_left]. apply runA_Jl; [now apply Forall_firstn|exact HJ].
Qed.

(* in particular when the files of sealed segments were durable before the call (Durable.sealed_durable, which Publish,
   Sync and Close maintain) *)
Lemma sealed_Jl st t : sealed_durable (head_base st) t -> Jl (exempt st) t.
Proof.
  intros HS x Hx Hl Hn. apply HS; [exact Hx| |]; intro E; apply Hn; unfold exempt; rewrite E; cbn [In]; auto.
Qed.

Theorem delete_keeps_sealed_durable st offs t k :
  sealed_durable (head_base st) t -> Jl (exempt st) (x_run t (firstn k (delete_full st offs))).
Proof. intros HS. apply delete_steps_keep_durable. now apply sealed_Jl. Qed.

(* a segment file that replaces another during the swap is durable when it takes the name: whatever a temporary file
   is renamed onto, the result is durable - no step of the swap makes a segment file less durable than the fsynced
   rewrite *)
Theorem delete_end_durable st offs t :
  Jl (exempt st) t -> delete_full st offs <> [] ->
  Jl (exempt st) (x_run t (delete_full st offs)) /\ Jt (x_run t (delete_full st offs)).
Proof.
  intros HJ Hne. destruct (delete_full_shape st offs) as [E|(pa & pb & E & HA & HT & HB)]; [contradiction|].
  rewrite E, x_run_app. apply (runB_J (exempt st)); [exact HB|]. split; [now apply runA_Jl|apply HT].
Qed.
