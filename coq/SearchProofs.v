(* SearchProofs.v — the binary searches of pkg/index/offset.go,
   pkg/index/times.go and pkg/segment/index.go, as transcribed in Model.v,
   characterised for arrays of any length.  The fuel given by the callers is
   shown to suffice: that is the termination argument of the Go loops. *)
From KV Require Import Base Model.
From Coq Require Import ZifyBool ZifyNat.
Ltac Zify.zify_post_hook ::= Z.div_mod_to_equations.

(* ---------- znth / zlen basics *)

Lemma zlen_nonneg {A} (l : list A) : 0 <= zlen l.
Proof. unfold zlen; lia. Qed.

Lemma zlen_cons {A} (x : A) l : zlen (x :: l) = 1 + zlen l.
Proof. unfold zlen; cbn [length]; lia. Qed.

Lemma zlen_app {A} (a b : list A) : zlen (a ++ b) = zlen a + zlen b.
Proof. unfold zlen; rewrite app_length; lia. Qed.

Lemma zlen_map {A B} (f : A -> B) l : zlen (map f l) = zlen l.
Proof. unfold zlen; now rewrite map_length. Qed.

Lemma znth_some {A} (l : list A) i x : znth l i = Some x -> 0 <= i < zlen l.
Proof.
  unfold znth, zlen. destruct (i <? 0) eqn:E; [discriminate|].
  intros Hn. assert (Z.to_nat i < length l)%nat by (apply nth_error_Some; congruence). lia.
Qed.

Lemma znth_in_range {A} (l : list A) i : 0 <= i < zlen l -> exists x, znth l i = Some x.
Proof.
  unfold znth, zlen; intros Hi. destruct (i <? 0) eqn:E; [lia|].
  destruct (nth_error l (Z.to_nat i)) eqn:N; [eauto|].
  apply nth_error_None in N; lia.
Qed.

Lemma znth_none {A} (l : list A) i : ~ (0 <= i < zlen l) -> znth l i = None.
Proof.
  unfold znth, zlen; intros Hi. destruct (i <? 0) eqn:E; [reflexivity|].
  apply nth_error_None; lia.
Qed.

Lemma znth_map {A B} (f : A -> B) l i : znth (map f l) i = option_map f (znth l i).
Proof.
  unfold znth. destruct (i <? 0); [reflexivity|].
  generalize (Z.to_nat i) as n; intro n; revert l; induction n as [|n IH]; intros [|x l]; cbn; auto.
Qed.

Lemma znth_0 {A} (x : A) l : znth (x :: l) 0 = Some x.
Proof. reflexivity. Qed.

Lemma znth_cons_pos {A} (x : A) l i : 0 < i -> znth (x :: l) i = znth l (i - 1).
Proof.
  intros Hi; unfold znth. destruct (i <? 0) eqn:E1; [lia|]. destruct (i - 1 <? 0) eqn:E2; [lia|].
  replace (Z.to_nat i) with (S (Z.to_nat (i - 1))) by lia. reflexivity.
Qed.

Lemma znth_last {A} (l : list A) (d : A) : l <> [] -> znth l (zlen l - 1) = Some (last l d).
Proof.
  induction l as [|x l IH]; [congruence|]. intros _.
  destruct l as [|y l].
  - reflexivity.
  - rewrite zlen_cons. rewrite znth_cons_pos by (rewrite zlen_cons; pose proof (zlen_nonneg l); lia).
    replace (1 + zlen (y :: l) - 1) with (zlen (y :: l)) by lia.
    change (last (x :: y :: l) d) with (last (y :: l) d).
    replace (zlen (y :: l)) with (zlen (y :: l) - 1 + 1) by lia.
    replace (zlen (y :: l) - 1 + 1 - 1) with (zlen (y :: l) - 1) by lia.
    apply IH; congruence.
Qed.

(* ---------- strict sortedness by index *)

Definition sorted_lt (keys : list Z) : Prop :=
  forall i j a b, znth keys i = Some a -> znth keys j = Some b -> i < j -> a < b.

Definition sorted_le (keys : list Z) : Prop :=
  forall i j a b, znth keys i = Some a -> znth keys j = Some b -> i <= j -> a <= b.

Lemma sorted_lt_tail x l : sorted_lt (x :: l) -> sorted_lt l.
Proof.
  intros Hs i j a b Hi Hj Hij.
  pose proof (znth_some _ _ _ Hi). pose proof (znth_some _ _ _ Hj).
  apply (Hs (i + 1) (j + 1)); try lia;
    rewrite znth_cons_pos by lia; [replace (i + 1 - 1) with i by lia|replace (j + 1 - 1) with j by lia]; assumption.
Qed.

Lemma sorted_le_tail x l : sorted_le (x :: l) -> sorted_le l.
Proof.
  intros Hs i j a b Hi Hj Hij.
  pose proof (znth_some _ _ _ Hi). pose proof (znth_some _ _ _ Hj).
  apply (Hs (i + 1) (j + 1)); try lia;
    rewrite znth_cons_pos by lia; [replace (i + 1 - 1) with i by lia|replace (j + 1 - 1) with j by lia]; assumption.
Qed.

(* ---------- the generic "for begin <= end" loop of offset.go *)

Inductive bsr := BFound (i : Z) | BNot (b e : Z) | BFuel | BPanic.

Fixpoint bs_le (fuel : nat) (keys : list Z) (b e off : Z) : bsr :=
  match fuel with
  | O => BFuel
  | S f =>
    if b <=? e then
      let mid := (b + e) / 2 in
      match znth keys mid with
      | None => BPanic
      | Some k =>
        if k <? off then bs_le f keys (mid + 1) e off
        else if off <? k then bs_le f keys b (mid - 1) off
        else BFound mid
      end
    else BNot b e
  end.

Lemma bs_le_spec fuel : forall keys b e off,
  sorted_lt keys ->
  0 <= b -> e < zlen keys -> b <= e + 1 ->
  (forall i k, 0 <= i < b -> znth keys i = Some k -> k < off) ->
  (forall i k, e < i -> znth keys i = Some k -> off < k) ->
  (Z.to_nat (e - b + 1) < fuel)%nat ->
  match bs_le fuel keys b e off with
  | BFound i => znth keys i = Some off
  | BNot b' e' => b' = e' + 1 /\ 0 <= b' <= zlen keys /\
                  (forall i k, 0 <= i < b' -> znth keys i = Some k -> k < off) /\
                  (forall i k, b' <= i -> znth keys i = Some k -> off < k)
  | BFuel | BPanic => False
  end.
Proof.
  induction fuel as [|f IH]; intros keys b e off Hs Hb He Hbe Hlo Hhi Hf; [lia|].
  cbn [bs_le]. destruct (b <=? e) eqn:Ebe.
  - set (mid := (b + e) / 2). assert (Hm : b <= mid <= e) by (unfold mid; lia).
    destruct (znth_in_range keys mid) as [k Hk]; [lia|]. rewrite Hk.
    destruct (k <? off) eqn:E1.
    + apply IH; try lia; try assumption.
      intros i k' Hi Hk'. destruct (Z.eq_dec i mid) as [->|Hne]; [replace k' with k by congruence; lia|].
      destruct (Z_lt_le_dec i b) as [Hlt|Hge]; [eapply Hlo; eauto; lia|].
      assert (k' < k) by (eapply (Hs i mid); eauto; lia). lia.
    + destruct (off <? k) eqn:E2.
      * apply IH; try lia; try assumption.
        intros i k' Hi Hk'. destruct (Z.eq_dec i mid) as [->|Hne]; [replace k' with k by congruence; lia|].
        destruct (Z_lt_le_dec e i) as [Hlt|Hge]; [eapply Hhi; eauto|].
        assert (k < k') by (eapply (Hs mid i); eauto; lia). lia.
      * replace k with off in Hk by lia. exact Hk.
  - assert (b = e + 1) by lia.
    split; [assumption|]. split; [lia|]. split; [assumption|].
    intros i k Hi Hk. apply (Hhi i k); [lia|assumption].
Qed.

(* ---------- index.Consume *)

Lemma bsearch_consume_bs fuel : forall items b e off ep,
  bsearch_consume fuel items b e off ep =
  match bs_le fuel (map ioff items) b e off with
  | BFound i => match znth items i with Some it => Ok (ipos it, ep) | None => Err EPanic end
  | BNot b' _ => match znth items b' with Some it => Ok (ipos it, ep) | None => Err EPanic end
  | BFuel => Err EOutOfFuel
  | BPanic => Err EPanic
  end.
Proof.
  induction fuel as [|f IH]; intros; cbn [bsearch_consume bs_le]; [reflexivity|].
  destruct (b <=? e); [|reflexivity].
  rewrite znth_map. destruct (znth items ((b + e) / 2)) as [it|] eqn:E; cbn [option_map]; [|reflexivity].
  destruct (ioff it <? off); [apply IH|]. destruct (off <? ioff it); [apply IH|]. rewrite E. reflexivity.
Qed.

Definition offs_sorted (items : list item) : Prop := sorted_lt (map ioff items).

(* first item whose offset is not below off *)
Definition first_ge (items : list item) (off : Z) : option item :=
  find (fun it => off <=? ioff it) items.

Lemma find_by_index {A} (f : A -> bool) (l : list A) (n : Z) (x : A) :
  znth l n = Some x -> f x = true ->
  (forall i y, 0 <= i < n -> znth l i = Some y -> f y = false) ->
  find f l = Some x.
Proof.
  revert n; induction l as [|a l IH]; intros n Hn Hx Hlt.
  - unfold znth in Hn. destruct (n <? 0); [discriminate|]. destruct (Z.to_nat n); discriminate.
  - pose proof (znth_some _ _ _ Hn) as Hr. destruct (Z.eq_dec n 0) as [->|Hne].
    + rewrite znth_0 in Hn. injection Hn as ->. cbn. now rewrite Hx.
    + cbn. rewrite (Hlt 0 a) by (try apply znth_0; lia).
      apply (IH (n - 1)).
      * rewrite <- znth_cons_pos with (x := a) by lia. exact Hn.
      * exact Hx.
      * intros i y Hi Hy. apply (Hlt (i + 1)); [lia|]. rewrite znth_cons_pos by lia.
        now replace (i + 1 - 1) with i by lia.
Qed.

Lemma find_none_by_index {A} (f : A -> bool) (l : list A) :
  (forall i y, znth l i = Some y -> f y = false) -> find f l = None.
Proof.
  induction l as [|a l IH]; intros Hall; [reflexivity|]. cbn.
  rewrite (Hall 0 a (znth_0 a l)). apply IH. intros i y Hy.
  pose proof (znth_some _ _ _ Hy).
  apply (Hall (i + 1)). rewrite znth_cons_pos by lia. now replace (i + 1 - 1) with i by lia.
Qed.

Definition is_relative (off : Z) : Prop := off = OffsetOldest \/ off = OffsetNewest.

Theorem index_consume_spec items off :
  offs_sorted items -> ~ is_relative off ->
  match items with
  | [] => index_consume items off = Err EIdxEmpty
  | first :: _ =>
    let lst := last items first in
    if ioff lst <? off then index_consume items off = Err EAfterEnd
    else exists it, first_ge items off = Some it /\ index_consume items off = Ok (ipos it, ipos lst)
  end.
Proof.
  intros Hs Hrel. destruct items as [|first rest]; [reflexivity|].
  unfold index_consume; lazy zeta.
  assert (Hlast : znth (first :: rest) (zlen (first :: rest) - 1) = Some (last (first :: rest) first))
    by (apply znth_last; discriminate).
  remember (last (first :: rest) first) as lst eqn:Hlst.
  set (items := first :: rest) in *.
  assert (Hlen : 1 <= zlen items) by (unfold items; rewrite zlen_cons; pose proof (zlen_nonneg rest); lia).
  unfold is_relative, OffsetOldest, OffsetNewest in *.
  destruct (off =? -2) eqn:E1; [lia|]. destruct (off =? -1) eqn:E2; [lia|].
  assert (Hkey : forall i it, znth items i = Some it -> znth (map ioff items) i = Some (ioff it))
    by (intros i it Hi; rewrite znth_map, Hi; reflexivity).
  destruct (off <=? ioff first) eqn:E3.
  - (* at or before the first item *)
    destruct (ioff lst <? off) eqn:E4.
    + exfalso. destruct (Z.eq_dec (zlen items - 1) 0) as [Hz|Hz].
      * rewrite Hz in Hlast. cbn in Hlast. injection Hlast as <-. lia.
      * assert (ioff first < ioff lst).
        { apply (Hs 0 (zlen items - 1)); [apply (Hkey 0 first (znth_0 _ _))|apply Hkey; exact Hlast|lia]. }
        lia.
    + exists first. split; [|reflexivity]. unfold first_ge; cbn. now rewrite E3.
  - destruct (ioff lst <? off) eqn:E4; [reflexivity|].
    destruct (off =? ioff lst) eqn:E5.
    + exists lst. split; [|reflexivity].
      apply (find_by_index _ items (zlen items - 1)); [exact Hlast|lia|].
      intros i y Hi Hy. assert (ioff y < ioff lst) by (apply (Hs i (zlen items - 1)); auto; lia). lia.
    + rewrite bsearch_consume_bs.
      pose proof (bs_le_spec (S (length items)) (map ioff items) 0 (zlen items - 1) off Hs) as Hbs.
      rewrite zlen_map in Hbs.
      specialize (Hbs ltac:(lia) ltac:(lia) ltac:(lia)).
      specialize (Hbs ltac:(intros; lia)).
      assert (Hhi : forall i k, zlen items - 1 < i -> znth (map ioff items) i = Some k -> off < k).
      { intros i k Hi Hk. apply znth_some in Hk. rewrite zlen_map in Hk. lia. }
      specialize (Hbs Hhi). specialize (Hbs ltac:(unfold zlen; lia)).
      destruct (bs_le (S (length items)) (map ioff items) 0 (zlen items - 1) off) as [i|b' e'| |];
        try contradiction.
      * (* found exactly *)
        rewrite znth_map in Hbs. destruct (znth items i) as [it|] eqn:Ei; [|discriminate].
        cbn in Hbs. injection Hbs as Hio. exists it. split; [|reflexivity].
        apply (find_by_index _ items i); [exact Ei|lia|].
        intros j y Hj Hy. assert (ioff y < ioff it) by (apply (Hs j i); auto; lia). lia.
      * destruct Hbs as (Hb & Hr & Hlo & Hhi').
        assert (Hb'lt : b' < zlen items).
        { destruct (Z_lt_le_dec b' (zlen items)); [assumption|].
          specialize (Hlo (zlen items - 1) (ioff lst) ltac:(lia) (Hkey _ _ Hlast)). lia. }
        destruct (znth_in_range items b') as [it Hit]; [lia|]. rewrite Hit.
        exists it. split; [|reflexivity].
        apply (find_by_index _ items b'); [exact Hit| |].
        -- specialize (Hhi' b' (ioff it) ltac:(lia) (Hkey _ _ Hit)). lia.
        -- intros j y Hj Hy. specialize (Hlo j (ioff y) Hj (Hkey _ _ Hy)). lia.
Qed.

(* ---------- index.Get *)

Lemma bsearch_get_bs fuel : forall items b e off,
  bsearch_get fuel items b e off =
  match bs_le fuel (map ioff items) b e off with
  | BFound i => match znth items i with Some it => Ok (ipos it) | None => Err EPanic end
  | BNot _ _ => Err EOffNotFound
  | BFuel => Err EOutOfFuel
  | BPanic => Err EPanic
  end.
Proof.
  induction fuel as [|f IH]; intros; cbn [bsearch_get bs_le]; [reflexivity|].
  destruct (b <=? e); [|reflexivity].
  rewrite znth_map. destruct (znth items ((b + e) / 2)) as [it|] eqn:E; cbn [option_map]; [|reflexivity].
  destruct (ioff it <? off); [apply IH|]. destruct (off <? ioff it); [apply IH|]. rewrite E. reflexivity.
Qed.

Definition find_item (items : list item) (off : Z) : option item :=
  find (fun it => ioff it =? off) items.

Lemma find_item_unique items i it off :
  offs_sorted items -> znth items i = Some it -> ioff it = off -> find_item items off = Some it.
Proof.
  intros Hs Hi Ho. apply (find_by_index _ items i); [exact Hi|lia|].
  intros j y Hj Hy.
  assert (ioff y < ioff it).
  { apply (Hs j i); [rewrite znth_map, Hy; reflexivity|rewrite znth_map, Hi; reflexivity|lia]. }
  lia.
Qed.

Theorem index_get_spec items off :
  offs_sorted items -> ~ is_relative off ->
  match items with
  | [] => index_get items off = Err EIdxEmpty
  | first :: _ =>
    let lst := last items first in
    if off <? ioff first then index_get items off = Err EBeforeStart
    else if ioff lst <? off then index_get items off = Err EAfterEnd
    else match find_item items off with
         | Some it => index_get items off = Ok (ipos it)
         | None => index_get items off = Err EOffNotFound
         end
  end.
Proof.
  intros Hs Hrel. destruct items as [|first rest]; [reflexivity|].
  unfold index_get; lazy zeta.
  assert (Hlast : znth (first :: rest) (zlen (first :: rest) - 1) = Some (last (first :: rest) first))
    by (apply znth_last; discriminate).
  remember (last (first :: rest) first) as lst eqn:Hlst.
  set (items := first :: rest) in *.
  assert (Hlen : 1 <= zlen items) by (unfold items; rewrite zlen_cons; pose proof (zlen_nonneg rest); lia).
  unfold is_relative, OffsetOldest, OffsetNewest in *.
  destruct (off =? -2) eqn:E1; [lia|]. destruct (off =? -1) eqn:E2; [lia|].
  assert (Hkey : forall i it, znth items i = Some it -> znth (map ioff items) i = Some (ioff it))
    by (intros i it Hi; rewrite znth_map, Hi; reflexivity).
  destruct (off <? ioff first) eqn:E3; [reflexivity|].
  destruct (ioff lst <? off) eqn:E4.
  { destruct (off =? ioff first) eqn:E5; [|reflexivity].
    exfalso. destruct (Z.eq_dec (zlen items - 1) 0) as [Hz|Hz].
    - rewrite Hz in Hlast. cbn in Hlast. injection Hlast as <-. lia.
    - assert (ioff first < ioff lst)
        by (apply (Hs 0 (zlen items - 1)); [apply (Hkey 0 first (znth_0 _ _))|apply Hkey; exact Hlast|lia]).
      lia. }
  destruct (off =? ioff first) eqn:E5.
  { rewrite (find_item_unique items 0 first off Hs (znth_0 _ _)) by lia. reflexivity. }
  destruct (off =? ioff lst) eqn:E6.
  { rewrite (find_item_unique items _ lst off Hs Hlast) by lia. reflexivity. }
  rewrite bsearch_get_bs.
  pose proof (bs_le_spec (S (length items)) (map ioff items) 0 (zlen items - 1) off Hs) as Hbs.
  rewrite zlen_map in Hbs.
  specialize (Hbs ltac:(lia) ltac:(lia) ltac:(lia)).
  specialize (Hbs ltac:(intros; lia)).
  assert (Hhi : forall i k, zlen items - 1 < i -> znth (map ioff items) i = Some k -> off < k).
  { intros i k Hi Hk. apply znth_some in Hk. rewrite zlen_map in Hk. lia. }
  specialize (Hbs Hhi). specialize (Hbs ltac:(unfold zlen; lia)).
  destruct (bs_le (S (length items)) (map ioff items) 0 (zlen items - 1) off) as [i|b' e'| |];
    try contradiction.
  - rewrite znth_map in Hbs. destruct (znth items i) as [it|] eqn:Ei; [|discriminate].
    cbn in Hbs. injection Hbs as Hio.
    rewrite (find_item_unique items i it off Hs Ei Hio). reflexivity.
  - destruct Hbs as (Hb & Hr & Hlo & Hhi').
    assert (Hnone : find_item items off = None).
    { apply find_none_by_index. intros i y Hy.
      destruct (Z_lt_le_dec i b').
      - pose proof (znth_some _ _ _ Hy). specialize (Hlo i (ioff y) ltac:(lia) (Hkey _ _ Hy)). lia.
      - specialize (Hhi' i (ioff y) ltac:(lia) (Hkey _ _ Hy)). lia. }
    rewrite Hnone. reflexivity.
Qed.

(* relative offsets *)
Lemma index_consume_oldest first rest :
  index_consume (first :: rest) OffsetOldest = Ok (ipos first, ipos (last (first :: rest) first)).
Proof. reflexivity. Qed.

Lemma index_consume_newest first rest :
  index_consume (first :: rest) OffsetNewest =
  Ok (ipos (last (first :: rest) first), ipos (last (first :: rest) first)).
Proof. reflexivity. Qed.

Lemma index_get_oldest first rest : index_get (first :: rest) OffsetOldest = Ok (ipos first).
Proof. reflexivity. Qed.

Lemma index_get_newest first rest :
  index_get (first :: rest) OffsetNewest = Ok (ipos (last (first :: rest) first)).
Proof. reflexivity. Qed.

(* ---------- index.Time (sort.Search) *)

Definition ts_sorted (items : list item) : Prop := sorted_le (map its items).

Lemma sort_search_spec fuel : forall items i j ts,
  ts_sorted items ->
  0 <= i -> j <= zlen items -> i <= j ->
  (forall k it, 0 <= k < i -> znth items k = Some it -> its it < ts) ->
  (forall k it, j <= k -> znth items k = Some it -> ts <= its it) ->
  (Z.to_nat (j - i) < fuel)%nat ->
  exists r, sort_search fuel items i j ts = Ok r /\ i <= r <= j /\
            (forall k it, 0 <= k < r -> znth items k = Some it -> its it < ts) /\
            (forall k it, r <= k -> znth items k = Some it -> ts <= its it).
Proof.
  induction fuel as [|f IH]; intros items i j ts Hs Hi Hj Hij Hlo Hhi Hf; [lia|].
  cbn [sort_search]. destruct (i <? j) eqn:E.
  - set (h := (i + j) / 2). assert (Hh : i <= h < j) by (unfold h; lia).
    destruct (znth_in_range items h) as [it Hit]; [lia|]. rewrite Hit.
    assert (Hkey : forall k x, znth items k = Some x -> znth (map its items) k = Some (its x))
      by (intros k x Hk; rewrite znth_map, Hk; reflexivity).
    destruct (ts <=? its it) eqn:E1.
    + destruct (IH items i h ts Hs) as (r & Hr & Hrange & Hlo' & Hhi'); try lia; try assumption.
      * intros k x Hk Hx. destruct (Z_lt_le_dec k j); [|eapply Hhi; eauto].
        assert (its it <= its x) by (apply (Hs h k); auto; lia). lia.
      * exists r. repeat split; try lia; assumption.
    + destruct (IH items (h + 1) j ts Hs) as (r & Hr & Hrange & Hlo' & Hhi'); try lia; try assumption.
      * intros k x Hk Hx. destruct (Z_lt_le_dec k i); [eapply Hlo; eauto; lia|].
        assert (its x <= its it) by (apply (Hs k h); auto; lia). lia.
      * exists r. repeat split; try lia; assumption.
  - exists i. split; [reflexivity|]. split; [lia|]. split; [assumption|].
    intros k it Hk Hit. apply (Hhi k it); [lia|assumption].
Qed.

Definition first_ts_ge (items : list item) (ts : Z) : option item :=
  find (fun it => ts <=? its it) items.

Theorem index_time_spec items ts :
  ts_sorted items ->
  match items with
  | [] => index_time items ts = Err ETimeEmpty
  | first :: _ =>
    let lst := last items first in
    if ts <? its first then index_time items ts = Err ETimeBefore
    else if its lst <? ts then index_time items ts = Err ETimeAfter
    else exists it, first_ts_ge items ts = Some it /\ index_time items ts = Ok (ipos it)
  end.
Proof.
  intros Hs. destruct items as [|first rest]; [reflexivity|].
  unfold index_time; lazy zeta.
  assert (Hlast : znth (first :: rest) (zlen (first :: rest) - 1) = Some (last (first :: rest) first))
    by (apply znth_last; discriminate).
  remember (last (first :: rest) first) as lst eqn:Hlst.
  set (items := first :: rest) in *.
  assert (Hlen : 1 <= zlen items) by (unfold items; rewrite zlen_cons; pose proof (zlen_nonneg rest); lia).
  destruct (ts <? its first) eqn:E1; [reflexivity|].
  assert (Hkey : forall k x, znth items k = Some x -> znth (map its items) k = Some (its x))
    by (intros k x Hk; rewrite znth_map, Hk; reflexivity).
  destruct (its lst <? ts) eqn:E3.
  { destruct (ts =? its first) eqn:E2; [|reflexivity].
    exfalso. assert (its first <= its lst)
      by (apply (Hs 0 (zlen items - 1)); [apply (Hkey 0 first (znth_0 _ _))|apply Hkey; exact Hlast|lia]).
    lia. }
  destruct (ts =? its first) eqn:E2.
  { exists first. split; [|reflexivity]. unfold first_ts_ge; cbn. destruct (ts <=? its first) eqn:E; [reflexivity|lia]. }
  destruct (sort_search_spec (S (length items)) items 0 (zlen items) ts Hs) as (r & Hr & Hrange & Hlo & Hhi);
    try lia.
  { intros k it Hk Hit. apply znth_some in Hit. lia. }
  { unfold zlen; lia. }
  rewrite Hr. cbn [bind].
  assert (Hrlt : r < zlen items).
  { destruct (Z_lt_le_dec r (zlen items)); [assumption|].
    specialize (Hlo (zlen items - 1) lst ltac:(lia) Hlast). lia. }
  destruct (znth_in_range items r) as [it Hit]; [lia|]. rewrite Hit.
  exists it. split; [|reflexivity].
  apply (find_by_index _ items r); [exact Hit| |].
  - specialize (Hhi r it ltac:(lia) Hit). lia.
  - intros k y Hk Hy. specialize (Hlo k y Hk Hy). lia.
Qed.

(* ---------- segment.Consume / segment.Get: "for begin < end" with post-correction *)

(* the selected segment: the last one whose base is <= off *)
Definition sel_ok (bases : list Z) (off r : Z) : Prop :=
  exists b, znth bases r = Some b /\ b <= off /\
            (forall j c, r < j -> znth bases j = Some c -> off < c).

Lemma bsearch_seg_spec fuel : forall bases b e off,
  sorted_lt bases ->
  0 <= b -> e < zlen bases -> b <= e + 1 -> 0 < zlen bases ->
  (forall i k, 0 <= i < b -> znth bases i = Some k -> k < off) ->
  (forall i k, e < i -> znth bases i = Some k -> off < k) ->
  (* some segment at or before b-1 .. exists: base 0 is below off *)
  (b = 0 -> exists k, znth bases 0 = Some k /\ k < off) ->
  (exists k, znth bases (zlen bases - 1) = Some k /\ off < k) ->
  (Z.to_nat (e - b + 1) < fuel)%nat ->
  exists r, bsearch_seg fuel bases b e off = Ok r /\ sel_ok bases off r.
Proof.
  induction fuel as [|f IH]; intros bases b e off Hs Hb He Hbe Hlen Hlo Hhi H0 Hlast Hf; [lia|].
  cbn [bsearch_seg]. destruct (b <? e) eqn:Ebe.
  - set (mid := (b + e) / 2). assert (Hm : b <= mid < e) by (unfold mid; lia).
    destruct (znth_in_range bases mid) as [k Hk]; [lia|]. rewrite Hk.
    destruct (k <? off) eqn:E1.
    + apply IH; try lia; try assumption.
      intros i k' Hi Hk'. destruct (Z.eq_dec i mid) as [->|Hne]; [replace k' with k by congruence; lia|].
      destruct (Z_lt_le_dec i b) as [Hlt|Hge]; [eapply Hlo; eauto; lia|].
      assert (k' < k) by (eapply (Hs i mid); eauto; lia). lia.
    + destruct (off <? k) eqn:E2.
      * apply IH; try lia; try assumption.
        -- intros i k' Hi Hk'. destruct (Z.eq_dec i mid) as [->|Hne]; [replace k' with k by congruence; lia|].
           destruct (Z_lt_le_dec e i) as [Hlt|Hge]; [eapply Hhi; eauto|].
           assert (k < k') by (eapply (Hs mid i); eauto; lia). lia.
      * exists mid. split; [reflexivity|]. exists k. repeat split; [assumption|lia|].
        intros j c Hj Hc. assert (k < c) by (eapply (Hs mid j); eauto). lia.
  - (* loop ended: b >= e, b <= e+1 *)
    assert (Hbr : b < zlen bases \/ b = zlen bases) by lia.
    destruct Hbr as [Hbr|Hbr].
    + destruct (znth_in_range bases b) as [bb Hbb]; [lia|]. rewrite Hbb.
      destruct (off <? bb) eqn:E3.
      * (* correction: previous segment *)
        destruct (Z.eq_dec b 0) as [->|Hb0].
        { destruct (H0 eq_refl) as (k & Hk0 & Hlt). rewrite Hk0 in Hbb. injection Hbb as <-. lia. }
        destruct (b - 1 <? 0) eqn:E4; [lia|].
        exists (b - 1). split; [reflexivity|].
        destruct (znth_in_range bases (b - 1)) as [c Hc]; [lia|].
        exists c. repeat split; [assumption| |].
        -- specialize (Hlo (b - 1) c ltac:(lia) Hc). lia.
        -- intros j d Hj Hd. destruct (Z.eq_dec j b) as [->|Hne]; [replace d with bb by congruence; lia|].
           assert (bb < d) by (eapply (Hs b j); eauto; lia). lia.
      * exists b. split; [reflexivity|]. exists bb. repeat split; [assumption|lia|].
        intros j d Hj Hd.
        destruct (Z_lt_le_dec e j) as [Hlt|Hge]; [eapply Hhi; eauto|]. lia.
    + exfalso. destruct Hlast as (k & Hk & Hlt).
      specialize (Hlo (zlen bases - 1) k ltac:(lia) Hk). lia.
Qed.
