(* SegProofs.v — one segment: the index agrees with the log file, and the
   reader functions (log_reader.go Consume / Get) return what the record list
   says.  Built on SearchProofs. *)
From KV Require Import Base Model SearchProofs.
From Coq Require Import ZifyBool ZifyNat.

Section SegProofs.
Variable H : bytes -> Z.

(* ---------- record positions *)

Fixpoint positions_from (v : ver) (cur : Z) (recs : list msg) : list Z :=
  match recs with
  | [] => []
  | m :: r => cur :: positions_from v (cur + rec_size v m) r
  end.

Lemma rec_size_pos v m : 28 <= rec_size v m.
Proof. unfold rec_size, rec_overhead. pose proof (zlen_nonneg (mkey m)). pose proof (zlen_nonneg (mval m)).
       destruct v; lia. Qed.

Lemma positions_ge v recs : forall cur p, In p (positions_from v cur recs) -> cur <= p.
Proof.
  induction recs as [|m r IH]; intros cur p Hin; [contradiction|].
  cbn in Hin. destruct Hin as [<-|Hin]; [lia|]. apply IH in Hin. pose proof (rec_size_pos v m). lia.
Qed.

(* items agree with the log file on offsets and positions *)
Definition items_match (v : ver) (cur : Z) (recs : list msg) (items : list item) : Prop :=
  map ioff items = map moff recs /\ map ipos items = positions_from v cur recs.

Lemma items_match_nil v cur items : items_match v cur [] items -> items = [].
Proof. intros [Ho _]. destruct items; [reflexivity|discriminate]. Qed.

Lemma items_match_cons v cur m r items :
  items_match v cur (m :: r) items ->
  exists it ir, items = it :: ir /\ ioff it = moff m /\ ipos it = cur /\
                items_match v (cur + rec_size v m) r ir.
Proof.
  intros [Ho Hp]. destruct items as [|it ir]; [discriminate|]. cbn in Ho, Hp.
  injection Ho as Ho1 Ho2. injection Hp as Hp1 Hp2. exists it, ir. repeat split; assumption.
Qed.

Lemma derive_from_match p v recs : forall pos ts,
  items_match v pos recs (derive_from H p v pos ts recs).
Proof.
  induction recs as [|m r IH]; intros pos ts; [split; reflexivity|].
  cbn [derive_from]. destruct (IH (pos + rec_size v m) (its (new_item H p m pos ts))) as [Ho Hp].
  split; cbn [map positions_from]; [rewrite Ho|rewrite Hp]; reflexivity.
Qed.

Lemma items_match_app v cur r1 r2 i1 i2 :
  items_match v cur r1 i1 -> items_match v (cur + recs_size v r1) r2 i2 ->
  items_match v cur (r1 ++ r2) (i1 ++ i2).
Proof.
  revert cur i1; induction r1 as [|m r IH]; intros cur i1 H1 H2.
  - apply items_match_nil in H1. subst. cbn in *. now replace (cur + 0) with cur in H2 by lia.
  - apply items_match_cons in H1. destruct H1 as (it & ir & -> & Ho & Hp & Hr).
    cbn [recs_size] in H2.
    specialize (IH (cur + rec_size v m) ir Hr).
    replace (cur + (rec_size v m + recs_size v r)) with (cur + rec_size v m + recs_size v r) in H2 by lia.
    destruct (IH H2) as [Ho' Hp'].
    split; cbn [app map positions_from]; [rewrite Ho, Ho'|rewrite Hp, Hp']; reflexivity.
Qed.

(* ---------- sorted record lists *)

Definition recs_sorted (recs : list msg) : Prop := sorted_lt (map moff recs).

Lemma recs_sorted_tail m r : recs_sorted (m :: r) -> recs_sorted r.
Proof. apply sorted_lt_tail. Qed.

Lemma recs_sorted_head_lt m r x : recs_sorted (m :: r) -> In x r -> moff m < moff x.
Proof.
  intros Hs Hin. apply In_nth_error in Hin. destruct Hin as [n Hn].
  apply (Hs 0 (Z.of_nat n + 1) (moff m) (moff x)); [reflexivity| |lia].
  cbn [map]. rewrite znth_cons_pos by lia. replace (Z.of_nat n + 1 - 1) with (Z.of_nat n) by lia.
  rewrite znth_map. unfold znth. destruct (Z.of_nat n <? 0) eqn:E; [lia|].
  rewrite Nat2Z.id, Hn. reflexivity.
Qed.

Lemma filter_ge_all off m r :
  recs_sorted (m :: r) -> off <= moff m -> filter (fun x => off <=? moff x) (m :: r) = m :: r.
Proof.
  intros Hs Hle. cbn. destruct (off <=? moff m) eqn:E; [|lia]. f_equal.
  assert (Hall : forall x, In x r -> (off <=? moff x) = true).
  { intros x Hx. pose proof (recs_sorted_head_lt m r x Hs Hx). lia. }
  clear Hs E. induction r as [|y r IH]; [reflexivity|]. cbn.
  rewrite (Hall y (or_introl eq_refl)). f_equal. apply IH. intros x Hx. apply Hall. now right.
Qed.

(* ---------- the file reads *)

Lemma skip_to_here v cur recs : skip_to v cur recs cur = Some (cur, recs).
Proof. destruct recs; cbn; now rewrite Z.eqb_refl. Qed.

Lemma first_ge_in items off it : first_ge items off = Some it -> In it items /\ off <= ioff it.
Proof. unfold first_ge. intros Hf. apply find_some in Hf. destruct Hf; split; [assumption|lia]. Qed.

Lemma in_items_pos_ge v cur recs items it :
  items_match v cur recs items -> In it items -> cur <= ipos it.
Proof.
  intros [_ Hp] Hin. apply (positions_ge v recs cur). rewrite <- Hp. now apply in_map.
Qed.

(* Lemma A: the index lookup lands on the suffix of records at or after off *)
Lemma skip_to_first_ge v : forall recs cur items off it,
  items_match v cur recs items -> recs_sorted recs ->
  first_ge items off = Some it ->
  skip_to v cur recs (ipos it) = Some (ipos it, filter (fun x => off <=? moff x) recs).
Proof.
  induction recs as [|m r IH]; intros cur items off it Hm Hs Hf.
  - apply items_match_nil in Hm. subst. discriminate.
  - destruct (items_match_cons _ _ _ _ _ Hm) as (i0 & ir & -> & Ho & Hp & Hr).
    unfold first_ge in Hf. cbn [find] in Hf. destruct (off <=? ioff i0) eqn:E.
    + injection Hf as <-. rewrite Hp, skip_to_here. f_equal. f_equal.
      symmetry. apply filter_ge_all; [assumption|lia].
    + fold (first_ge ir off) in Hf.
      destruct (first_ge_in _ _ _ Hf) as [Hin _].
      pose proof (in_items_pos_ge _ _ _ _ _ Hr Hin) as Hge. pose proof (rec_size_pos v m).
      cbn [skip_to]. destruct (ipos it =? cur) eqn:E1; [lia|].
      destruct (ipos it <? cur + rec_size v m) eqn:E2; [lia|].
      rewrite (IH _ _ _ _ Hr (recs_sorted_tail _ _ Hs) Hf).
      cbn [filter]. rewrite <- Ho, E. reflexivity.
Qed.

(* Lemma B: reading up to the last position takes a plain prefix *)
Lemma take_upto_all v : forall recs cur maxpos n,
  (forall p, In p (positions_from v cur recs) -> p <= maxpos) ->
  take_upto v cur recs maxpos n = firstn n recs.
Proof.
  induction recs as [|m r IH]; intros cur maxpos n Hall; destruct n as [|n]; try reflexivity.
  cbn [take_upto firstn]. destruct (cur <=? maxpos) eqn:E.
  - f_equal. apply IH. intros p Hp. apply Hall. now right.
  - specialize (Hall cur (or_introl eq_refl)). lia.
Qed.

Lemma positions_suffix v : forall recs cur pos suffix,
  skip_to v cur recs pos = Some (pos, suffix) ->
  forall p, In p (positions_from v pos suffix) -> In p (positions_from v cur recs).
Proof.
  induction recs as [|m r IH]; intros cur pos suffix Hsk p Hp.
  - cbn in Hsk. destruct (pos =? cur); [|discriminate]. injection Hsk as E1 E2. subst. contradiction.
  - cbn [skip_to] in Hsk. destruct (pos =? cur) eqn:E.
    + injection Hsk as E1 E2. subst. exact Hp.
    + destruct (pos <? cur + rec_size v m); [discriminate|]. right. eapply IH; eauto.
Qed.

Lemma last_pos_max v : forall recs cur (items : list item) d,
  items_match v cur recs items -> items <> [] ->
  forall p, In p (positions_from v cur recs) -> p <= ipos (last items d).
Proof.
  induction recs as [|m r IH]; intros cur items d Hm Hne p Hp; [contradiction|].
  destruct (items_match_cons _ _ _ _ _ Hm) as (i0 & ir & -> & Ho & Hpos & Hr).
  destruct r as [|m' r'].
  - apply items_match_nil in Hr. subst ir. cbn in Hp. destruct Hp as [<-|[]]. cbn. lia.
  - destruct (items_match_cons _ _ _ _ _ Hr) as (i1 & ir' & -> & _ & Hpos1 & _).
    change (last (i0 :: i1 :: ir') d) with (last (i1 :: ir') d).
    assert (Hfirst : cur + rec_size v m <= ipos (last (i1 :: ir') d)).
    { apply (IH (cur + rec_size v m) (i1 :: ir') d Hr); [discriminate|]. left. reflexivity. }
    cbn [positions_from] in Hp. destruct Hp as [<-|Hp].
    + pose proof (rec_size_pos v m). lia.
    + apply (IH (cur + rec_size v m) (i1 :: ir') d Hr); [discriminate|exact Hp].
Qed.

(* ---------- messages.Consume after index.Consume *)

Lemma messages_consume_spec (s : seg) items off it max :
  items_match (sver s) (hdr_size (sver s)) (srecs s) items -> recs_sorted (srecs s) ->
  first_ge items off = Some it -> 0 <= max ->
  forall d, messages_consume s (ipos it) (ipos (last items d)) max =
            Ok (firstn (Z.to_nat max) (filter (fun x => off <=? moff x) (srecs s))).
Proof.
  intros Hm Hs Hf Hmax d. unfold messages_consume.
  destruct (max <? 0) eqn:E; [lia|].
  pose proof (skip_to_first_ge _ _ _ _ _ _ Hm Hs Hf) as Hsk. rewrite Hsk.
  set (suffix := filter (fun x => off <=? moff x) (srecs s)) in *.
  rewrite take_upto_all.
  - f_equal. destruct (Z_le_gt_dec max (zlen suffix)).
    + now rewrite Z.min_l by lia.
    + rewrite Z.min_r by lia. unfold zlen. rewrite Nat2Z.id.
      rewrite firstn_all. symmetry. apply firstn_all2. unfold zlen in *. lia.
  - intros p Hp. apply (last_pos_max _ _ _ _ d Hm).
    + destruct (first_ge_in _ _ _ Hf) as [Hin _]. intro Hn. subst. contradiction.
    + eapply positions_suffix; eauto.
Qed.

(* ---------- messages.Get after index.Get *)

Lemma read_at_item v : forall recs cur items it,
  items_match v cur recs items -> In it items ->
  exists m, read_at_from v cur recs (ipos it) = Ok m /\
            (forall off, find_item items off = Some it -> find (fun x => moff x =? off) recs = Some m).
Proof.
  induction recs as [|m r IH]; intros cur items it Hm Hin.
  - apply items_match_nil in Hm. subst. contradiction.
  - destruct (items_match_cons _ _ _ _ _ Hm) as (i0 & ir & -> & Ho & Hp & Hr).
    cbn [read_at_from].
    destruct (ipos it =? cur) eqn:E.
    + (* positions are strictly increasing: it must be the first item *)
      destruct Hin as [<-|Hin].
      * exists m. split; [reflexivity|]. intros off Hf. unfold find_item in Hf. cbn [find] in *.
        rewrite Ho in Hf. destruct (moff m =? off); [reflexivity|].
        apply find_some in Hf. destruct Hf as [Hin' _].
        pose proof (in_items_pos_ge _ _ _ _ _ Hr Hin'). pose proof (rec_size_pos v m). lia.
      * pose proof (in_items_pos_ge _ _ _ _ _ Hr Hin). pose proof (rec_size_pos v m). lia.
    + destruct Hin as [<-|Hin]; [lia|].
      pose proof (in_items_pos_ge _ _ _ _ _ Hr Hin) as Hge.
      destruct (ipos it <? cur + rec_size v m) eqn:E2; [lia|].
      destruct (IH _ _ _ Hr Hin) as (m' & Hrd & Hfind). exists m'. split; [assumption|].
      intros off Hf. unfold find_item in Hf. cbn [find] in *. rewrite Ho in Hf.
      destruct (moff m =? off) eqn:E3.
      * injection Hf as <-. lia.
      * apply Hfind. exact Hf.
Qed.

End SegProofs.
