(* SpecFacts.v — facts about the Spec.v checkers themselves (no model involved). *)
From KV Require Import Base ListAux Spec.
From Coq Require Import ZifyBool ZifyNat.

Lemma bytes_eqb_eq a b : bytes_eqb a b = true -> a = b.
Proof.
  revert b; induction a as [|x a IH]; intros [|y b]; cbn; try discriminate; [reflexivity|].
  intros E. apply andb_prop in E. destruct E as [E1 E2]. apply N.eqb_eq in E1. subst. f_equal. now apply IH.
Qed.

Lemma msg_eqb_eq a b : msg_eqb a b = true -> a = b.
Proof.
  unfold msg_eqb. intros E. repeat (apply andb_prop in E; destruct E as [E ?]).
  destruct a, b; cbn in *. f_equal; try lia; now apply bytes_eqb_eq.
Qed.

Lemma bytes_eqb_refl_spec b : bytes_eqb b b = true.
Proof. induction b as [|x b IH]; [reflexivity|]. cbn. now rewrite N.eqb_refl, IH. Qed.

Lemma msg_eqb_refl_spec m : msg_eqb m m = true.
Proof. unfold msg_eqb. now rewrite !Z.eqb_refl, !bytes_eqb_refl_spec. Qed.

(* offsets strictly increasing along the list *)
Fixpoint offs_increasing_from (lo : Z) (l : list msg) : Prop :=
  match l with [] => True | m :: r => lo < moff m /\ offs_increasing_from (moff m) r end.
Definition offs_increasing (l : list msg) : Prop :=
  match l with [] => True | m :: r => offs_increasing_from (moff m) r end.

Lemma offs_increasing_from_gt lo l x : offs_increasing_from lo l -> In x l -> lo < moff x.
Proof.
  revert lo; induction l as [|m r IH]; intros lo Hi Hin; [contradiction|].
  destruct Hi as [Hlt Hr]. destruct Hin as [<-|Hin]; [assumption|]. specialize (IH _ Hr Hin). lia.
Qed.

(* in a strictly increasing list, the first element at or after off that has offset off is the one find_off finds *)
Lemma from_off_head l off m :
  offs_increasing l -> 0 <= off -> find_off l off = Some m ->
  exists r, from_off l off = m :: r.
Proof.
  intros Hinc Hoff Hf. unfold from_off. destruct (off <? 0) eqn:E; [lia|]. clear E.
  unfold find_off in Hf.
  induction l as [|a l IH]; [discriminate|]. cbn in Hf |- *.
  destruct (moff a =? off) eqn:E1.
  - injection Hf as <-. destruct (off <=? moff a) eqn:E2; [|lia]. eauto.
  - destruct (off <=? moff a) eqn:E2.
    + (* a is above off, so every later element is too: off cannot be found later *)
      exfalso. apply find_some in Hf. destruct Hf as [Hin Heq].
      cbn in Hinc. pose proof (offs_increasing_from_gt _ _ _ Hinc Hin). lia.
    + apply IH; [|assumption]. cbn in Hinc. destruct l as [|b l']; [exact I|]. cbn in Hinc |- *. tauto.
Qed.

(* C04, last sentence: Get agrees with what Consume shows for the same offset *)
Theorem get_consume_agree a off g c :
  offs_increasing (live a) -> (forall m, In m (live a) -> moff m < anext a) -> 0 <= off ->
  check_get a off g = true -> check_consume a off 1 c = true ->
  check_get_consume_agree off g c = true.
Proof.
  intros Hinc Hlt Hoff Hg Hc. unfold check_get_consume_agree. destruct (off <? 0) eqn:E0; [lia|].
  unfold check_get in Hg. destruct (0 <=? off) eqn:E1; [|lia].
  unfold check_consume, OffsetNewest in Hc.
  destruct (find_off (live a) off) as [m|] eqn:Ef.
  - (* live: Get returned it; Consume must start with it *)
    destruct g as [m'|]; [|discriminate]. apply msg_eqb_eq in Hg. subst m'.
    pose proof Ef as Ef'. unfold find_off in Ef'. apply find_some in Ef'. destruct Ef' as [Hin Heq].
    specialize (Hlt m Hin).
    destruct (anext a <? off) eqn:E2; [lia|]. destruct (off =? -1) eqn:E3; [lia|].
    destruct (from_off_head _ _ _ Hinc Hoff Ef) as (r & Hfrom). rewrite Hfrom in Hc.
    destruct c as [[n ms]|]; [|discriminate].
    destruct ms as [|x ms].
    + exfalso. apply andb_prop in Hc. destruct Hc as [Hc Hc3]. apply andb_prop in Hc. destruct Hc as [Hc1 Hc2].
      cbn [existsb] in Hc2. assert (Hmn : (moff m <? n) = true) by lia. rewrite Hmn in Hc2. discriminate.
    + destruct ms as [|y ms].
      * cbn in Hc. apply andb_prop in Hc. destruct Hc as [Hc _]. apply andb_prop in Hc. destruct Hc as [Hc _].
        rewrite andb_true_r in Hc. apply msg_eqb_eq in Hc. subst. rewrite msg_eqb_refl_spec. reflexivity.
      * exfalso. apply andb_prop in Hc. destruct Hc as [Hc _]. apply andb_prop in Hc. destruct Hc as [_ Hc].
        unfold zlen in Hc. cbn in Hc. lia.
  - (* not live: Consume cannot show a message with that offset *)
    destruct g as [m'|cl].
    + destruct (off <? anext a); discriminate.
    + destruct c as [[n ms]|]; [|reflexivity]. destruct ms as [|x ms]; [reflexivity|].
      destruct ms as [|y ms]; [|reflexivity].
      destruct (anext a <? off) eqn:E2; [discriminate|]. destruct (off =? -1) eqn:E3; [lia|].
      cbn in Hc. apply andb_prop in Hc. destruct Hc as [Hc _]. apply andb_prop in Hc. destruct Hc as [Hc _].
      unfold from_off in Hc. rewrite E0 in Hc.
      destruct (filter (fun m => off <=? moff m) (live a)) as [|z zs] eqn:Efl; [discriminate|].
      apply andb_prop in Hc. destruct Hc as [Hc _]. apply msg_eqb_eq in Hc. subst z.
      assert (Hin : In x (live a)).
      { assert (In x (filter (fun m => off <=? moff m) (live a))) by (rewrite Efl; left; reflexivity).
        apply filter_In in H. tauto. }
      destruct (moff x =? off) eqn:E4; [|reflexivity].
      exfalso. unfold find_off in Ef. pose proof (find_none _ _ Ef x Hin) as Hn. cbn in Hn. lia.
Qed.
