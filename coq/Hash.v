(* Hash.v — FNV-1a 64 (hash/fnv New64a), executable. *)
From KV Require Import Base.

Definition fnv_offset : Z := 14695981039346656037.
Definition fnv_prime : Z := 1099511628211.
Definition two64 : Z := 18446744073709551616.

Definition fnv64a (b : bytes) : Z :=
  fold_left (fun h x => (Z.lxor h (Z.of_N x) * fnv_prime) mod two64) b fnv_offset.
