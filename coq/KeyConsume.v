(* KeyConsume.v — C09: ConsumeByKey on the log returns exactly the live messages with that key, in offset
   order, never one with another key, never steps over one, and ends at NextOffset. *)
From KV Require Import Base Model ListAux SearchProofs SegProofs ReaderProofs Spec SpecFacts LogInv
     ConsumeProofs GetProofs AbsFacts KeyProofs.
From Coq Require Import ZifyBool ZifyNat.

Section KeyConsume.
Variable H : bytes -> Z.
Notation KInv := (KInv H).

(* ---------- the live messages at or after off, seen from the segment Consume selects *)

Lemma from_off_selected st off i s pre post :
  Inv st -> off <> OffsetNewest -> sel_spec (bases (segs st)) off i ->
  segs st = pre ++ s :: post -> zlen pre = i ->
  from_off (all_recs (segs st)) off = ge_filter off (srecs s) ++ all_recs post.
Proof.
  intros (Hne & HF & Hch & _) Hnew (Hir & Hafter & Hbefore) Hsplit Hpre.
  assert (Hs : znth (segs st) i = Some s).
  { rewrite Hsplit, <- Hpre. replace (zlen pre) with (zlen pre + 0) by lia. rewrite znth_app_r by lia. reflexivity. }
  assert (Hs_inv : seg_inv s) by (eapply Forall_znth; eauto).
  rewrite Hsplit. apply from_off_split.
  - intros m Hm. rewrite Hsplit in Hch. pose proof (chain_pre_lt pre s post m Hch Hm) as Hlt.
    destruct Hbefore as [->|(b & Hb & Hle)].
    + assert (pre = []) by (destruct pre; [reflexivity|unfold zlen in Hpre; cbn in Hpre; lia]). subst. contradiction.
    + rewrite znth_bases, Hs in Hb. cbn in Hb. injection Hb as <-. lia.
  - intros m Hm. destruct (in_all_recs _ _ Hm) as (s2 & Hs2 & Hm2).
    destruct (in_znth _ _ Hs2) as [j Hj]. pose proof (znth_some _ _ _ Hj) as Hjr.
    assert (Hz : znth (segs st) (i + 1 + j) = Some s2).
    { rewrite Hsplit. rewrite <- Hpre. replace (zlen pre + 1 + j) with (zlen pre + (1 + j)) by lia.
      rewrite znth_app_r by lia. rewrite znth_cons_pos by lia. now replace (1 + j - 1) with j by lia. }
    assert (off < sbase s2).
    { apply (Hafter (i + 1 + j)); [lia|]. rewrite znth_bases, Hz. reflexivity. }
    assert (seg_inv s2) by (eapply Forall_znth; eauto).
    pose proof (seg_offsets_ge_base s2 m ltac:(assumption) Hm2). lia.
  - intros Hneg. split.
    + destruct Hbefore as [->|(b & Hb & Hle)].
      * destruct pre; [reflexivity|unfold zlen in Hpre; cbn in Hpre; lia].
      * rewrite znth_bases, Hs in Hb. cbn in Hb. injection Hb as <-.
        destruct Hs_inv as (_ & _ & _ & _ & Hb0). lia.
    + destruct Hs_inv as (_ & Hnn & _). exact Hnn.
Qed.

(* ---------- the forward walk, on the shapes of the segments *)

Definition shp (s : seg) : list msg * Z := (srecs s, recs_next s).

Fixpoint fwd_val (k : bytes) (M : nat) (cand : list msg) (nx : Z) (post : list (list msg * Z)) : Z * list msg :=
  match firstn M cand with
  | [] => match post with
          | [] => (nx, [])
          | (recs2, nx2) :: post' => fwd_val k M (filter (has_key k) recs2) nx2 post'
          end
  | m :: ms => (match last_opt (m :: ms) with Some x => moff x + 1 | None => nx end, m :: ms)
  end.

Lemma fwd_val_unfold k M cand nx post :
  fwd_val k M cand nx post =
  match firstn M cand with
  | [] => match post with
          | [] => (nx, [])
          | (recs2, nx2) :: post' => fwd_val k M (filter (has_key k) recs2) nx2 post'
          end
  | m :: ms => (match last_opt (m :: ms) with Some x => moff x + 1 | None => nx end, m :: ms)
  end.
Proof. destruct post; reflexivity. Qed.

Definition fwd_at (k : bytes) (M : nat) (off : Z) (l : list (list msg * Z)) : Z * list msg :=
  match l with [] => (0, []) | (recs, nx) :: post => fwd_val k M (kcand k off recs) nx post end.

Lemma kcand_oldest k recs : (forall m, In m recs -> 0 <= moff m) -> kcand k OffsetOldest recs = filter (has_key k) recs.
Proof.
  intros Hnn. unfold kcand. apply filter_ext_in. intros m Hm. specialize (Hnn m Hm). unfold OffsetOldest.
  destruct (moff m <? -2) eqn:E; [lia|reflexivity].
Qed.

Lemma shapes_same l l' : Forall2 same_shape l l' -> map shp l' = map shp l.
Proof.
  intros HF. induction HF as [|s s' r r' Hs HF IH]; [reflexivity|]. cbn [map]. rewrite IH. f_equal.
  unfold shp. rewrite (same_shape_recs_next _ _ Hs). destruct Hs as (Hr & _). now rewrite Hr.
Qed.

Lemma skipn_znth {A} (l : list A) i x : znth l i = Some x -> skipn (Z.to_nat i) l = x :: skipn (Z.to_nat (i + 1)) l.
Proof.
  intros Hz. pose proof (znth_some _ _ _ Hz) as Hr. apply znth_nth_error in Hz.
  replace (Z.to_nat (i + 1)) with (S (Z.to_nat i)) by lia. generalize dependent (Z.to_nat i). clear Hr.
  intros n. revert l. induction n as [|n IH]; intros [|y l] Hz; cbn in Hz; try discriminate.
  - injection Hz as ->. reflexivity.
  - cbn [skipn]. apply IH. exact Hz.
Qed.

Lemma consume_by_key_fwd_spec c k max : forall n st i off,
  KInv (cparams c) st -> opened st = Some c -> ckeys c = true ->
  0 <= i < zlen (segs st) -> (Z.to_nat (zlen (segs st) - 1 - i) < n)%nat -> off <> OffsetNewest ->
  obs_consume (consume_by_key_fwd H c st k n i off max) =
  OOk (fwd_at k (Z.to_nat (Z.max max 1)) off (skipn (Z.to_nat i) (map shp (segs st)))).
Proof.
  induction n as [|n IH]; intros st i off HK Hc Hkeys Hi Hn Hnew; [lia|].
  pose proof HK as (HI & HX & Hp). cbn [consume_by_key_fwd].
  destruct (znth_in_range (segs st) i Hi) as [s Hs].
  destruct (with_index_ok H c st i s HI Hc Hs) as (st1 & s' & items & Hw & Hok & Hsh & Hst & HI1 & Hs1).
  rewrite Hw. cbn [bind]. destruct (with_index_exact H c st i st1 s' items HK Hc Hw) as (Hex & HK1).
  assert (Hpk : pkeys (cparams c) = true) by exact Hkeys.
  rewrite (reader_consume_by_key_spec H (cparams c) s' items k off max Hpk Hex Hok Hnew). cbn [bind].
  assert (Hzs : znth (map shp (segs st)) i = Some (shp s)) by (rewrite znth_map, Hs; reflexivity).
  rewrite (skipn_znth _ _ _ Hzs). unfold fwd_at, shp at 1.
  pose proof Hsh as (Hr & _). rewrite Hr. rewrite (same_shape_recs_next _ _ Hsh).
  set (M := Z.to_nat (Z.max max 1)). set (cand := kcand k off (srecs s)).
  destruct Hst as (HF2 & Ho1 & _).
  destruct (firstn M cand) as [|m0 mr] eqn:Ef.
  - (* nothing here *)
    rewrite fwd_val_unfold, Ef. cbn [last_opt].
    destruct (zlen (segs st) - 1 <=? i) eqn:Elast.
    + assert (Hnil : skipn (Z.to_nat (i + 1)) (map shp (segs st)) = []).
      { apply skipn_all2. rewrite map_length. unfold zlen in *. lia. }
      rewrite Hnil. reflexivity.
    + assert (Hi1 : 0 <= i + 1 < zlen (segs st1)).
      { unfold zlen in *. rewrite <- (Forall2_len _ _ _ HF2). lia. }
      rewrite (IH st1 (i + 1) OffsetOldest HK1 ltac:(congruence) Hkeys Hi1).
      2:{ unfold zlen in *. rewrite <- (Forall2_len _ _ _ HF2). lia. }
      2:{ unfold OffsetOldest, OffsetNewest. lia. }
      rewrite (shapes_same _ _ HF2).
      destruct (znth_in_range (segs st) (i + 1) ltac:(unfold zlen in *; lia)) as [s2 Hs2].
      assert (Hzs2 : znth (map shp (segs st)) (i + 1) = Some (shp s2)) by (rewrite znth_map, Hs2; reflexivity).
      rewrite (skipn_znth _ _ _ Hzs2). unfold fwd_at, shp at 1 3. f_equal. f_equal.
      apply kcand_oldest. destruct HI as (_ & HF & _). pose proof (Forall_znth _ _ _ _ HF Hs2) as (_ & Hnn & _). exact Hnn.
  - rewrite fwd_val_unfold, Ef. reflexivity.
Qed.


(* ---------- what the walk returns, against the live messages with the key *)

Definition lastnx (nx : Z) (post : list (list msg * Z)) : Z := fold_left (fun _ rn => snd rn) post nx.

Definition krest (k : bytes) (post : list (list msg * Z)) : list msg :=
  concat (map (fun rn => filter (has_key k) (fst rn)) post).

Lemma firstn_nil_inv {A} (l : list A) n : (1 <= n)%nat -> firstn n l = [] -> l = [].
Proof. intros Hn E. destruct n; [lia|]. destruct l; [reflexivity|discriminate]. Qed.

Lemma fwd_val_ok k M : (1 <= M)%nat -> forall post cand nx,
  match fwd_val k M cand nx post with
  | (n, []) => cand ++ krest k post = [] /\ n = lastnx nx post
  | (n, ms) => is_prefix ms (cand ++ krest k post) = true /\ (length ms <= M)%nat /\
               exists x, last_opt ms = Some x /\ n = moff x + 1
  end.
Proof.
  intros HM. induction post as [|[recs2 nx2] post IH]; intros cand nx; rewrite fwd_val_unfold.
  - destruct (firstn M cand) as [|m ms] eqn:Ef.
    + rewrite (firstn_nil_inv _ _ HM Ef). split; reflexivity.
    + rewrite <- Ef. split; [apply is_prefix_firstn|]. split; [rewrite firstn_length; lia|].
      rewrite Ef. destruct (last_opt (m :: ms)) as [x|] eqn:El; [exists x; split; reflexivity|]. apply last_opt_none in El. discriminate.
  - destruct (firstn M cand) as [|m ms] eqn:Ef.
    + rewrite (firstn_nil_inv _ _ HM Ef). cbn [app]. specialize (IH (filter (has_key k) recs2) nx2).
      unfold krest. cbn [map concat fst]. fold (krest k post). unfold lastnx. cbn [fold_left snd]. fold (lastnx nx2 post). exact IH.
    + rewrite <- Ef. split; [apply is_prefix_firstn|]. split; [rewrite firstn_length; lia|].
      rewrite Ef. destruct (last_opt (m :: ms)) as [x|] eqn:El; [exists x; split; reflexivity|]. apply last_opt_none in El. discriminate.
Qed.

Lemma skipn_app_exact' {A} (a b : list A) : skipn (length a) (a ++ b) = b.
Proof. induction a; [reflexivity|assumption]. Qed.

Lemma filter_concat {A} (f : A -> bool) (ll : list (list A)) : filter f (concat ll) = concat (map (filter f) ll).
Proof. induction ll as [|l ll IH]; [reflexivity|]. cbn [concat map]. now rewrite filter_app, IH. Qed.

Lemma kcand_ge k off recs : filter (has_key k) (ge_filter off recs) = kcand k off recs.
Proof.
  unfold ge_filter, kcand. induction recs as [|m r IH]; [reflexivity|]. cbn [filter].
  destruct (off <=? moff m) eqn:E1; destruct (moff m <? off) eqn:E2; try lia; cbn [negb andb filter]; rewrite IH; reflexivity.
Qed.

Lemma lastnx_shapes s post : lastnx (recs_next s) (map shp post) =
  match last_opt (s :: post) with Some hd => recs_next hd | None => 0 end.
Proof.
  revert s. induction post as [|s2 post IH]; intros s; [reflexivity|].
  unfold lastnx. cbn [map fold_left shp snd]. fold (lastnx (recs_next s2) (map shp post)). rewrite IH.
  rewrite last_opt_cons_cons. reflexivity.
Qed.

(* ConsumeByKey on any state of a session with the key index *)
Theorem log_consume_by_key_correct c st k off max :
  KInv (cparams c) st -> opened st = Some c ->
  check_consume_by_key (abs st) (ckeys c) k off max (obs_consume (log_consume_by_key H st k off max)) = true.
Proof.
  intros HK Hc. pose proof HK as (HI & _). pose proof HI as (Hne & HF & Hch & Hv & _).
  unfold log_consume_by_key, get_cfg. rewrite Hc. cbn [bind]. unfold check_consume_by_key.
  destruct (ckeys c) eqn:Hkeys; cbn [negb]; [|reflexivity].
  destruct (anext (abs st) <? off) eqn:Ebeyond; [reflexivity|].
  assert (Hbne : bases (segs st) <> []) by (unfold bases; destruct (segs st); [congruence|discriminate]).
  destruct (last_opt (segs st)) as [hd|] eqn:Ehd; [|apply last_opt_none in Ehd; congruence].
  assert (Hanext : anext (abs st) = recs_next hd) by (unfold abs, wnext; cbn; now rewrite Ehd).
  assert (Hlast_znth : znth (segs st) (zlen (segs st) - 1) = Some hd) by (now rewrite <- last_opt_znth).
  pose proof (znth_some _ _ _ Hlast_znth) as Hlen.
  destruct (Z.eq_dec off OffsetNewest) as [->|Hnew].
  - (* OffsetNewest: the last segment reports NextOffset *)
    rewrite (seg_consume_newest _ Hbne). cbn [bind]. unfold bases. rewrite zlen_map.
    change (OffsetNewest =? OffsetNewest) with true. cbn iota.
    replace (S (length (segs st))) with (S (length (segs st))) by reflexivity. cbn [consume_by_key_fwd].
    destruct (with_index_ok H c st _ hd HI Hc Hlast_znth) as (st1 & s' & items & Hw & Hok & Hsh & _).
    rewrite Hw. cbn [bind]. unfold reader_consume_by_key. change (OffsetNewest =? OffsetNewest) with true. cbn iota. cbn [bind].
    replace (zlen (segs st) - 1 <=? zlen (segs st) - 1) with true by lia. cbn [obs_consume].
    rewrite (idx_next_recs s' items Hok), (same_shape_recs_next _ _ Hsh), Hanext. apply Z.eqb_refl.
  - destruct (off =? OffsetNewest) eqn:En; [lia|].
    destruct (seg_consume_spec (bases (segs st)) off Hbne (bases_sorted _ Hch)
                (fun b Hb => bases_nonneg _ b HF Hb) Hnew) as (i & Hi & Hsel).
    rewrite Hi. cbn [bind]. pose proof Hsel as (Hir & _). unfold bases in Hir. rewrite zlen_map in Hir.
    rewrite (consume_by_key_fwd_spec c k max (S (length (segs st))) st i off HK Hc Hkeys Hir ltac:(unfold zlen in *; lia) Hnew).
    destruct (znth_in_range (segs st) i Hir) as [s Hs].
    destruct (znth_split _ _ _ Hs) as (pre & post & Hsplit & Hpre).
    assert (Hskip : skipn (Z.to_nat i) (map shp (segs st)) = shp s :: map shp post).
    { rewrite Hsplit, map_app. cbn [map]. rewrite <- Hpre. unfold zlen. rewrite Nat2Z.id.
      rewrite <- (map_length shp pre). apply skipn_app_exact'. }
    rewrite Hskip. unfold fwd_at, shp at 1.
    assert (Hfrom : filter (has_key k) (from_off (live (abs st)) off) = kcand k off (srecs s) ++ krest k (map shp post)).
    { unfold abs. cbn [live]. rewrite (from_off_selected st off i s pre post HI Hnew Hsel Hsplit Hpre).
      rewrite filter_app, kcand_ge. f_equal. unfold all_recs, krest. rewrite filter_concat, !map_map. reflexivity. }
    rewrite Hfrom.
    assert (Hnx : lastnx (recs_next s) (map shp post) = anext (abs st)).
    { rewrite lastnx_shapes. rewrite Hanext. rewrite Hsplit in Ehd. rewrite last_opt_app2 in Ehd by discriminate. now rewrite Ehd. }
    set (M := Z.to_nat (Z.max max 1)).
    pose proof (fwd_val_ok k M ltac:(unfold M; lia) (map shp post) (kcand k off (srecs s)) (recs_next s)) as Hv'.
    destruct (fwd_val k M (kcand k off (srecs s)) (recs_next s) (map shp post)) as [n ms]. cbn [obs_consume].
    destruct ms as [|m0 mr].
    + destruct Hv' as [Hnil ->]. rewrite Hnil, Hnx. rewrite Z.leb_refl, Z.eqb_refl. cbn. now rewrite orb_true_r.
    + destruct Hv' as (Hpre' & Hl & x & Hx & ->). rewrite Hpre', Hx, Z.eqb_refl.
      replace (zlen (m0 :: mr) <=? Z.max max 1) with true by (unfold zlen, M in *; lia). reflexivity.
Qed.

End KeyConsume.
