(* CrashDir.v — C05: the multi-file swaps of delete-by-rewrite as programs of file-system steps on the segment
   directory, and what a process that dies after any prefix of them leaves behind.
   The directory is the list of segments (log file = records, index file = option items) plus the two temporary
   files of a rewrite; temporary files are ignored by segment.Find.  Executable; proofs in CrashDirProofs.v. *)
From KV Require Import Base Model.

(* the temporary files <base>.log.rewrite.X / <base>.index.rewrite.X *)
Record tmpfiles := mkTmp { tlog : option (list msg); tidx : option (ver * list item) }.

Record ddir := mkDir { dsegs : list seg; dtmp : tmpfiles }.

Inductive fsop :=
| RemoveIndex (b : Z)                 (* os.Remove(<b>.index): no error if missing *)
| RemoveLog (b : Z)                   (* os.Remove(<b>.log) *)
| RenameTmpLog (b : Z)                (* os.Rename(tmp log, <b>.log): replaces an existing file *)
| RenameTmpIndex (b : Z)              (* os.Rename(tmp index, <b>.index) *)
| RemoveTmp                           (* RewriteSegment.Remove *)
| CreateLog (b : Z) (v : ver)         (* openWriter of a new empty segment at NextOffset: the log file ... *)
| CreateIdx (b : Z).                  (* ... then its index file *)

Fixpoint upd_seg (l : list seg) (b : Z) (f : seg -> seg) : list seg :=
  match l with
  | [] => []
  | s :: r => if sbase s =? b then f s :: r else s :: upd_seg r b f
  end.

Fixpoint del_seg (l : list seg) (b : Z) : list seg :=
  match l with
  | [] => []
  | s :: r => if sbase s =? b then r else s :: del_seg r b
  end.

Fixpoint ins_seg (s : seg) (l : list seg) : list seg :=
  match l with
  | [] => [s]
  | x :: r => if sbase s <? sbase x then s :: x :: r else x :: ins_seg s r
  end.

Definition has_seg (l : list seg) (b : Z) : bool := existsb (fun s => sbase s =? b) l.

Definition fs_exec (d : ddir) (o : fsop) : ddir :=
  match o with
  | RemoveIndex b => mkDir (upd_seg (dsegs d) b (fun s => set_idx s None)) (dtmp d)
  | RemoveLog b => mkDir (del_seg (dsegs d) b) (dtmp d)        (* an index left without its log is ignored *)
  | RenameTmpLog b =>
    match tlog (dtmp d) with
    | None => d
    | Some recs =>
      let segs' := if has_seg (dsegs d) b
                   then upd_seg (dsegs d) b (fun s => mkSeg (sbase s) (sver s) recs (sidx s))   (* the index file stays as it is *)
                   else ins_seg (mkSeg b V2 recs None) (dsegs d) in
      mkDir segs' (mkTmp None (tidx (dtmp d)))
    end
  | RenameTmpIndex b =>
    match tidx (dtmp d) with
    | None => d
    | Some ix => mkDir (upd_seg (dsegs d) b (fun s => set_idx s (Some ix))) (mkTmp (tlog (dtmp d)) None)
    end
  | RemoveTmp => mkDir (dsegs d) (mkTmp None None)
  | CreateLog b v => mkDir (ins_seg (mkSeg b v [] None) (dsegs d)) (dtmp d)
  | CreateIdx b => mkDir (upd_seg (dsegs d) b (fun s => set_idx s (Some (sver s, [])))) (dtmp d)
  end.

Definition fs_run (d : ddir) (prog : list fsop) : ddir := fold_left fs_exec prog d.

(* the programs (pkg/segment/segment.go Override / Rename / Remove, log_reader.go reader.Delete,
   log_writer.go writer.Delete); b is the segment rewritten, b' the base of the survivors, n NextOffset *)
Definition prog_override (b : Z) : list fsop := [RemoveIndex b; RenameTmpLog b; RenameTmpIndex b].
Definition prog_rebase (b b' : Z) : list fsop := [RenameTmpLog b'; RenameTmpIndex b'; RemoveIndex b; RemoveLog b].
Definition prog_drop (b : Z) : list fsop := [RemoveTmp; RemoveIndex b; RemoveLog b].
(* the writing segment, newest message deleted: the new empty head is created first (repair F8) *)
Definition create_head (n : Z) (v : ver) : list fsop := [CreateLog n v; CreateIdx n].
Definition prog_head_tail_override (b n : Z) (v : ver) : list fsop := create_head n v ++ prog_override b.
Definition prog_head_all (b n : Z) (v : ver) : list fsop := RemoveTmp :: create_head n v ++ [RemoveIndex b; RemoveLog b].

(* which program a Delete runs, decided exactly as Model.log_delete decides its outcome *)
Section DeleteProg.
Variable H : bytes -> Z.

Definition delete_prog (st : lstate) (offs : list Z) : list fsop :=
  match opened st with
  | None => []
  | Some c =>
    if cro c then []
    else match offs with
    | [] => []
    | _ =>
      let lowest := zmin_list offs in
      if lowest <? 0 then []
      else match seg_get (bases (segs st)) lowest with
      | Err _ => []
      | Ok i =>
        match znth (segs st) i with
        | None => []
        | Some src =>
          let deleted := filter (fun m => zmem (moff m) offs) (srecs src) in
          let survive := filter (fun m => negb (zmem (moff m) offs)) (srecs src) in
          match deleted with
          | [] => [RemoveTmp]                      (* nothing to delete: only the rewrite files are removed *)
          | _ :: _ =>
            let b := sbase src in
            if is_last st i then
              let nxt := idx_next src (head_items src) in
              match survive with
              | [] => prog_head_all b nxt (cnewver c)
              | m0 :: _ =>
                let tail := match last_opt deleted with Some m => moff m =? nxt - 1 | None => false end in
                (if tail then create_head nxt (cnewver c) else [])
                  ++ (if moff m0 =? b then prog_override b else prog_rebase b (moff m0))
              end
            else
              match survive with
              | [] => prog_drop b
              | m0 :: _ => if moff m0 =? b then prog_override b else prog_rebase b (moff m0)
              end
          end
        end
      end
    end
  end.

(* Publish: directory steps happen only on rollover (log.go Publish -> openWriter), decided as Model.log_publish does *)
Definition publish_prog (st : lstate) : list fsop :=
  match opened st with
  | None => []
  | Some c =>
    if cro c then []
    else match last_opt (segs st) with
         | None => []
         | Some hd => if needs_rollover c hd then create_head (idx_next hd (head_items hd)) (cnewver c) else []
         end
  end.

End DeleteProg.
