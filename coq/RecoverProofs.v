(* RecoverProofs.v — C07 (and the byte-level part of C05/C06): V1 decoder soundness, index file round trip,
   scanning stops exactly at the end of the longest prefix of valid records, Recover keeps exactly that
   prefix and is a no-op on an undamaged segment, Check accepts exactly the clean segments, and after
   Recover Check succeeds and keeps succeeding after appends. *)
From KV Require Import Base Model ListAux SearchProofs Codec CodecProofs.
From Coq Require Import ZifyBool ZifyNat.

(* ---------- V1 decoder soundness *)

Lemma bytes_eqb_true a : forall t, bytes_eqb a t = true -> a = t.
Proof.
  induction a as [|x a IH]; intros [|y t] E; cbn in E; try discriminate; [reflexivity|].
  apply andb_prop in E. destruct E as [E1 E2]. apply N.eqb_eq in E1. subst. f_equal. now apply IH.
Qed.

Theorem read_rec_v1_sound crc b pos m nxt :
  bytes_ok b -> 0 <= pos -> read_rec crc V1 b pos = Ok (m, nxt) ->
  nxt = pos + rec_size V1 m /\ sub b pos (rec_size V1 m) = enc_rec crc V1 m.
Proof.
  intros Hok Hpos. unfold read_rec.
  set (hdr := sub b pos 28).
  pose proof (zlen_sub_le b pos 28 ltac:(lia)) as Hle28. fold hdr in Hle28.
  destruct (zlen hdr =? 0) eqn:E0; [discriminate|]. destruct (zlen hdr <? 28) eqn:E28; [discriminate|].
  assert (Hh28 : zlen hdr = 28) by lia.
  set (kl := i32 (debe (sub hdr 16 4))). set (vl := i32 (debe (sub hdr 20 4))).
  destruct ((kl <? 0) || (vl <? 0)) eqn:Eneg; [discriminate|].
  destruct (max_body <? kl + vl) eqn:Emax; [discriminate|].
  set (payload := sub b (pos + 28) (kl + vl)).
  pose proof (zlen_sub_le b (pos + 28) (kl + vl) ltac:(lia)) as Hlep. fold payload in Hlep.
  destruct (zlen payload <? kl + vl) eqn:Epl; [discriminate|].
  assert (Hpl : zlen payload = kl + vl) by lia.
  destruct (negb (crc payload =? debe (sub hdr 24 4))) eqn:Ecrc; [discriminate|].
  intros E. injection E as <- <-. unfold rec_size, rec_overhead. cbn [mkey mval].
  assert (Hkl0 : 0 <= kl) by lia. assert (Hvl0 : 0 <= vl) by lia.
  assert (Hhok : bytes_ok hdr) by (apply bytes_ok_sub; exact Hok).
  assert (Hkey : zlen (sub payload 0 kl) = kl) by (apply zlen_sub_exact; lia).
  assert (Hval : zlen (sub payload kl vl) = vl) by (apply zlen_sub_exact; lia).
  rewrite Hkey, Hval. split; [lia|].
  assert (Hs : forall p n, 0 <= p -> 0 <= n -> p + n <= 28 -> zlen (sub hdr p n) = n)
    by (intros p n H1 H2 H3; apply zlen_sub_exact; lia).
  assert (Ho8 : be 8 (i64 (debe (sub hdr 0 8))) = sub hdr 0 8).
  { apply be_i64; [apply sub_length_nat; apply Hs; lia|apply bytes_ok_sub; exact Hhok]. }
  assert (Ht8 : be 8 (i64 (debe (sub hdr 8 8))) = sub hdr 8 8).
  { apply be_i64; [apply sub_length_nat; apply Hs; lia|apply bytes_ok_sub; exact Hhok]. }
  assert (Hk4 : be 4 kl = sub hdr 16 4).
  { apply be_len32; [apply sub_length_nat; apply Hs; lia|apply bytes_ok_sub; exact Hhok|reflexivity|lia]. }
  assert (Hv4 : be 4 vl = sub hdr 20 4).
  { apply be_len32; [apply sub_length_nat; apply Hs; lia|apply bytes_ok_sub; exact Hhok|reflexivity|lia]. }
  assert (Hsplit : payload = sub payload 0 kl ++ sub payload kl vl).
  { rewrite (split2 payload kl) at 1 by lia. rewrite Hpl. replace (kl + vl - kl) with vl by lia. reflexivity. }
  assert (Hcrc : crc payload = debe (sub hdr 24 4)).
  { destruct (crc payload =? debe (sub hdr 24 4)) eqn:Ec; [lia|discriminate]. }
  assert (Hc4 : be 4 (debe (sub hdr 24 4)) = sub hdr 24 4).
  { replace 4%nat with (length (sub hdr 24 4)) at 1 by (apply sub_length_nat; apply Hs; lia).
    apply be_debe. apply bytes_ok_sub. exact Hhok. }
  assert (Hhdr : hdr = sub hdr 0 8 ++ sub hdr 8 8 ++ sub hdr 16 4 ++ sub hdr 20 4 ++ sub hdr 24 4).
  { rewrite (split2 hdr 8) at 1 by lia. f_equal. rewrite Hh28. replace (28 - 8) with (8 + 12) by lia.
    rewrite (sub_concat hdr 8 8 12) by (try lia; apply Hs; lia). f_equal.
    replace (8 + 8) with 16 by lia. replace 12 with (4 + 8) by lia.
    rewrite (sub_concat hdr 16 4 8) by (try lia; apply Hs; lia). f_equal.
    replace (16 + 4) with 20 by lia. replace 8 with (4 + 4) at 1 by lia.
    rewrite (sub_concat hdr 20 4 4) by (try lia; apply Hs; lia). reflexivity. }
  unfold enc_rec. cbn [moff mtime mkey mval]. rewrite Hkey, Hval, Ho8, Ht8, Hk4, Hv4.
  rewrite <- Hsplit, Hcrc, Hc4.
  pose proof (f_equal (fun x => x ++ payload) Hhdr) as Hall. cbv beta in Hall. rewrite <- !app_assoc in Hall. rewrite <- Hall.
  replace (28 + kl + vl) with (28 + (kl + vl)) by lia.
  unfold hdr, payload. apply sub_concat; try lia; fold hdr; fold payload; assumption.
Qed.

Theorem read_rec_v1_msg_ok crc b pos m nxt :
  bytes_ok b -> read_rec crc V1 b pos = Ok (m, nxt) -> msg_ok m.
Proof.
  intros Hok. unfold read_rec. set (hdr := sub b pos 28).
  pose proof (zlen_sub_le b pos 28 ltac:(lia)) as Hle28. fold hdr in Hle28.
  destruct (zlen hdr =? 0) eqn:E0; [discriminate|]. destruct (zlen hdr <? 28) eqn:E28; [discriminate|].
  set (kl := i32 (debe (sub hdr 16 4))). set (vl := i32 (debe (sub hdr 20 4))).
  destruct ((kl <? 0) || (vl <? 0)) eqn:Eneg; [discriminate|].
  destruct (max_body <? kl + vl) eqn:Emax; [discriminate|].
  set (payload := sub b (pos + 28) (kl + vl)).
  pose proof (zlen_sub_le b (pos + 28) (kl + vl) ltac:(lia)) as Hlep. fold payload in Hlep.
  destruct (zlen payload <? kl + vl) eqn:Epl; [discriminate|].
  destruct (negb (crc payload =? debe (sub hdr 24 4))); [discriminate|].
  intros E. injection E as <- _. unfold msg_ok. cbn [moff mtime mkey mval].
  assert (Hhok : bytes_ok hdr) by (apply bytes_ok_sub; exact Hok).
  assert (H8 : forall p, 0 <= p -> p + 8 <= 28 -> 0 <= debe (sub hdr p 8) < two64z).
  { intros p Hp Hp8. pose proof (debe_bound (sub hdr p 8) (bytes_ok_sub hdr p 8 Hhok)) as Hb.
    rewrite (zlen_sub_exact hdr p 8) in Hb by lia. exact Hb. }
  split; [apply i64_range; apply H8; lia|]. split; [apply i64_range; apply H8; lia|].
  rewrite (zlen_sub_exact payload 0 kl) by lia. rewrite (zlen_sub_exact payload kl vl) by lia. lia.
Qed.

Theorem read_rec_sound crc v b pos m nxt :
  bytes_ok b -> 0 <= pos -> read_rec crc v b pos = Ok (m, nxt) ->
  nxt = pos + rec_size v m /\ sub b pos (rec_size v m) = enc_rec crc v m /\ msg_ok m.
Proof.
  intros Hok Hpos E. destruct v.
  - destruct (read_rec_v1_sound crc b pos m nxt Hok Hpos E) as [A B]. split; [exact A|]. split; [exact B|].
    eapply read_rec_v1_msg_ok; eassumption.
  - destruct (read_rec_v2_sound crc b pos m nxt Hok Hpos E) as [A B]. split; [exact A|]. split; [exact B|].
    eapply read_rec_v2_msg_ok; eassumption.
Qed.

Definition ierr_is_eof (e : ierr) : bool := match e with EEOF => true | _ => false end.

Lemma recs_size_nonneg_codec v r : 0 <= recs_size v r.
Proof. induction r as [|x r IH]; cbn [recs_size]; [lia|]. pose proof (rec_size_pos_28 v x). lia. Qed.

Lemma zlen_concat_enc crc v ms : zlen (concat (map (enc_rec crc v) ms)) = recs_size v ms.
Proof. induction ms as [|m r IH]; [reflexivity|]. cbn [map concat recs_size]. rewrite zlen_app, enc_rec_length, IH. reflexivity. Qed.

(* ---------- the sequential scan: everything it returns is a back-to-back run of valid records,
   and it stops at the first position that does not hold one *)

Lemma read_rec_eof_iff crc v (b : bytes) pos : 0 <= pos -> (read_rec crc v b pos = Err EEOF <-> zlen b <= pos).
Proof.
  intros Hpos. unfold read_rec.
  assert (Hz : zlen (sub b pos 28) = 0 <-> zlen b <= pos).
  { unfold sub. destruct ((pos <? 0) || (28 <? 0)) eqn:E; [lia|]. pose proof (zlen_nonneg b).
    unfold zlen at 1. rewrite firstn_length, skipn_length. unfold zlen in *. lia. }
  destruct (zlen (sub b pos 28) =? 0) eqn:E0.
  - split; [intros _; apply Hz; lia|reflexivity].
  - split; [|intros Hle; apply Hz in Hle; lia].
    destruct (zlen (sub b pos 28) <? 28); [discriminate|]. destruct v.
    + repeat match goal with |- context [if ?c then _ else _] => destruct c; try discriminate end.
    + repeat match goal with |- context [if ?c then _ else _] => destruct c; try discriminate end.
Qed.

Lemma sub_zero (b : bytes) p : sub b p 0 = [].
Proof. unfold sub. destruct ((p <? 0) || (0 <? 0)); [reflexivity|]. rewrite Z.min_l by apply zlen_nonneg. reflexivity. Qed.

Lemma scan_log_sound crc v b : forall fuel pos recs e fin,
  bytes_ok b -> 0 <= pos -> scan_log crc fuel v b pos = (recs, e, fin) ->
  recs = placed v pos (map snd recs) /\ e = pos + recs_size v (map snd recs) /\
  sub b pos (e - pos) = concat (map (enc_rec crc v) (map snd recs)) /\ Forall msg_ok (map snd recs) /\
  match fin with
  | ScanEOF => zlen b <= e
  | ScanCorrupt => exists err, read_rec crc v b e = Err err /\ err <> EEOF
  | ScanFuel => True
  end.
Proof.
  induction fuel as [|f IH]; intros pos recs e fin Hok Hpos E; cbn [scan_log] in E.
  - injection E as <- <- <-. cbn. rewrite Z.sub_diag, sub_zero. repeat split; try constructor; lia.
  - destruct (read_rec crc v b pos) as [[m nxt]|err] eqn:Er.
    + destruct (scan_log crc f v b nxt) as [[l p] e'] eqn:Es. injection E as <- <- <-.
      destruct (read_rec_sound crc v b pos m nxt Hok Hpos Er) as (Hn & Henc & Hmok).
      pose proof (rec_size_pos_28 v m) as H28.
      destruct (IH nxt l p e' Hok ltac:(lia) Es) as (Hl & Hp & Hsub & Hall & Hfin).
      cbn [map snd placed recs_size concat]. split; [f_equal; subst nxt; exact Hl|]. split; [lia|].
      split; [|split; [constructor; assumption|exact Hfin]].
      replace (p - pos) with (rec_size v m + (p - nxt)) by lia.
      pose proof (recs_size_nonneg_codec v (map snd l)) as Hnn.
      rewrite (sub_concat b pos (rec_size v m) (p - nxt)); try lia.
      * rewrite Henc. f_equal. replace (pos + rec_size v m) with nxt by lia. exact Hsub.
      * rewrite Henc. apply enc_rec_length.
      * replace (pos + rec_size v m) with nxt by lia. rewrite Hsub. rewrite Hp.
        replace (nxt + recs_size v (map snd l) - nxt) with (recs_size v (map snd l)) by lia.
        apply zlen_concat_enc.
    + assert (Hbase : recs = [] /\ e = pos) by (destruct err; injection E as <- <- _; split; reflexivity).
      destruct Hbase as [-> ->]. cbn. rewrite Z.sub_diag, sub_zero. split; [reflexivity|]. split; [lia|]. split; [reflexivity|].
      split; [constructor|].
      destruct (ierr_is_eof err) eqn:Ee.
      * assert (err = EEOF) by (destruct err; cbn in Ee; congruence). subst err. injection E as <-.
        apply (read_rec_eof_iff crc v b pos Hpos). exact Er.
      * assert (fin = ScanCorrupt) by (destruct err; cbn in Ee; try discriminate; injection E as <-; reflexivity). subst fin.
        exists err. split; [exact Er|]. intro Hc. subst err. discriminate.
Qed.

(* ---------- file headers *)

Lemma items_eqb_eq a b : list_eqb item_eqb a b = true <-> a = b.
Proof.
  revert b. induction a as [|x a IH]; intros [|y b]; cbn [list_eqb]; try (split; [discriminate|discriminate]); [tauto|].
  split.
  - intros E. apply andb_prop in E. destruct E as [E1 E2]. apply IH in E2. subst b. f_equal.
    unfold item_eqb in E1. destruct x, y; cbn in *. f_equal; lia.
  - intros E. injection E as <- <-. apply andb_true_intro. split; [unfold item_eqb; lia|]. apply IH. reflexivity.
Qed.

(* the version decision looks at the length class and the first 8 bytes only *)
Lemma log_version_prefix b b' base :
  (zlen b =? 0) = (zlen b' =? 0) -> (zlen b <? 8) = (zlen b' <? 8) -> sub b 0 8 = sub b' 0 8 ->
  log_version b base = log_version b' base.
Proof. intros E0 E8 Es. unfold log_version. now rewrite E0, E8, Es. Qed.

Lemma log_version_v2_header b base : log_version b base = Ok V2 -> 8 <= zlen b /\ sub b 0 8 = enc_log_header V2.
Proof.
  unfold log_version. destruct (zlen b =? 0) eqn:E0; [discriminate|]. destruct (zlen b <? 8) eqn:E8; [discriminate|].
  set (h := sub b 0 8). assert (Hh : zlen h = 8) by (apply zlen_sub_exact; lia).
  destruct (bytes_eqb (sub h 0 6) log_magic) eqn:Em.
  - apply bytes_eqb_true in Em.
    destruct (sub h 6 2) as [|vb [|rb [|x r]]] eqn:E2; try discriminate.
    destruct (1 <? vb)%N eqn:Ev; [discriminate|]. destruct (negb (rb =? 0)%N) eqn:Er; [discriminate|].
    destruct (vb =? 1)%N eqn:Ev1; [|discriminate]. intros _. split; [lia|].
    rewrite (split2 h 6) by lia. rewrite Em, Hh. change (8 - 6) with 2. rewrite E2.
    apply N.eqb_eq in Ev1. subst vb. destruct (rb =? 0)%N eqn:Er0; [|discriminate]. apply N.eqb_eq in Er0. subst rb. reflexivity.
  - destruct (i64 (debe h) =? base); discriminate.
Qed.

Lemma log_version_enc_v2 crc ms base : log_version (enc_log crc V2 ms) base = Ok V2.
Proof.
  unfold enc_log. set (rest := concat (map (enc_rec crc V2) ms)).
  assert (Hl : zlen (enc_log_header V2 ++ rest) = 8 + zlen rest) by (rewrite zlen_app; reflexivity).
  pose proof (zlen_nonneg rest). unfold log_version. rewrite Hl.
  destruct (8 + zlen rest =? 0) eqn:E0; [lia|]. destruct (8 + zlen rest <? 8) eqn:E8; [lia|].
  replace (sub (enc_log_header V2 ++ rest) 0 8) with (enc_log_header V2) by (symmetry; exact (sub_prefix (enc_log_header V2) rest)).
  reflexivity.
Qed.

Lemma be_first n : forall z, 0 <= z -> exists r, be (S n) z = Z.to_N ((z / 256 ^ Z.of_nat n) mod 256) :: r.
Proof.
  induction n as [|n IH]; intros z Hz.
  - exists []. unfold be. cbn [be_aux]. change (256 ^ Z.of_nat 0) with 1. now rewrite Z.div_1_r.
  - rewrite be_snoc. destruct (IH (z / 256) ltac:(apply Z.div_pos; lia)) as (r & Hr). rewrite Hr.
    exists (r ++ [Z.to_N (z mod 256)]). cbn [app]. f_equal. f_equal. f_equal.
    rewrite Z.div_div by lia. f_equal. rewrite Nat2Z.inj_succ, Z.pow_succ_r by lia. reflexivity.
Qed.

Lemma be8_not_magic z rest : 0 <= z < two63 -> bytes_eqb (sub (sub (be 8 z ++ rest) 0 8) 0 6) log_magic = false.
Proof.
  intros Hz. replace (sub (be 8 z ++ rest) 0 8) with (be 8 z) by (symmetry; exact (sub_prefix (be 8 z) rest)).
  destruct (be_first 7 z ltac:(lia)) as (r & Hr). change (S 7) with 8%nat in Hr.
  assert (Hlen : length r = 7%nat) by (pose proof (be_length 8 z) as Hl; rewrite Hr in Hl; cbn in Hl; lia).
  rewrite Hr. set (x := Z.to_N ((z / 256 ^ Z.of_nat 7) mod 256)).
  assert (Hx : (x < 128)%N).
  { unfold x. change (256 ^ Z.of_nat 7) with 72057594037927936. unfold two63 in Hz.
    assert (0 <= z / 72057594037927936 < 128) by (split; [apply Z.div_pos; lia|apply Z.div_lt_upper_bound; lia]).
    rewrite Z.mod_small by lia. lia. }
  destruct r as [|r1 [|r2 [|r3 [|r4 [|r5 [|r6 [|r7 [|]]]]]]]]; cbn in Hlen; try lia.
  unfold sub. cbn. change (Pos.to_nat 6) with 6%nat. cbn [firstn bytes_eqb log_magic]. unfold log_magic. cbn [bytes_eqb].
  destruct (x =? 255)%N eqn:E; [lia|reflexivity].
Qed.

Lemma log_version_enc_v1 crc ms base :
  match ms with [] => True | m :: _ => moff m = base /\ 0 <= base < two63 end ->
  log_version (enc_log crc V1 ms) base = Ok V1.
Proof.
  destruct ms as [|m r]; [reflexivity|]. intros [Hb Hr]. unfold enc_log. cbn [enc_log_header app map concat].
  pose proof (enc_rec_length crc V1 m) as Hl. pose proof (rec_size_pos_28 V1 m) as H28.
  set (rest := concat (map (enc_rec crc V1) r)).
  assert (Hz : zlen (enc_rec crc V1 m ++ rest) = rec_size V1 m + zlen rest) by (rewrite zlen_app, Hl; reflexivity).
  pose proof (zlen_nonneg rest). unfold log_version. rewrite Hz.
  destruct (rec_size V1 m + zlen rest =? 0) eqn:E0; [lia|]. destruct (rec_size V1 m + zlen rest <? 8) eqn:E8; [lia|].
  unfold enc_rec. rewrite <- !app_assoc. rewrite be8_not_magic by lia.
  replace (sub (be 8 (moff m) ++ _) 0 8) with (be 8 (moff m)) by (symmetry; exact (sub_prefix (be 8 (moff m)) _)).
  rewrite debe_be. rewrite i64_roundtrip by (unfold two63 in *; lia). rewrite Hb, Z.eqb_refl. reflexivity.
Qed.

Lemma log_version_v1_cases b base :
  log_version b base = Ok V1 -> zlen b = 0 \/ (8 <= zlen b /\ i64 (debe (sub b 0 8)) = base).
Proof.
  unfold log_version. destruct (zlen b =? 0) eqn:E0; [left; lia|]. destruct (zlen b <? 8) eqn:E8; [discriminate|].
  destruct (bytes_eqb (sub (sub b 0 8) 0 6) log_magic).
  - destruct (sub (sub b 0 8) 6 2) as [|vb [|rb [|x r]]]; try discriminate.
    destruct (1 <? vb)%N; [discriminate|]. destruct (negb (rb =? 0)%N); [discriminate|]. destruct (vb =? 1)%N; discriminate.
  - destruct (i64 (debe (sub b 0 8)) =? base) eqn:Eb; [|discriminate]. intros _. right. split; lia.
Qed.

(* ---------- scanning a whole log file *)

Lemma sub_full_le (b : bytes) p n : 0 <= p -> 0 < n -> zlen (sub b p n) = n -> p + n <= zlen b.
Proof.
  intros Hp Hn Hl. destruct (sub_full b p n Hp Hn Hl) as (pre & post & Hb & Hpre).
  set (x := sub b p n) in *. clearbody x. rewrite Hb. rewrite !zlen_app, Hl, Hpre. pose proof (zlen_nonneg post). lia.
Qed.

Lemma scan_file crc v b base fuel recs e fin :
  bytes_ok b -> log_version b base = Ok v ->
  scan_log crc fuel v b (hdr_size v) = (recs, e, fin) ->
  recs = placed v (hdr_size v) (map snd recs) /\ Forall msg_ok (map snd recs) /\
  e = log_size v (map snd recs) /\ e <= zlen b /\ sub b 0 e = enc_log crc v (map snd recs) /\
  match fin with
  | ScanEOF => e = zlen b
  | ScanCorrupt => exists err, read_rec crc v b e = Err err /\ err <> EEOF
  | ScanFuel => True
  end.
Proof.
  intros Hok Hv Es. assert (Hh : 0 <= hdr_size v) by (destruct v; cbn; lia).
  destruct (scan_log_sound crc v b fuel (hdr_size v) recs e fin Hok Hh Es) as (Hr & He & Hsub & Hall & Hfin).
  set (ms := map snd recs) in *. pose proof (recs_size_nonneg_codec v ms) as Hnn.
  pose proof (zlen_concat_enc crc v ms) as Hzl.
  assert (Hhdr : hdr_size v <= zlen b /\ sub b 0 (hdr_size v) = enc_log_header v).
  { destruct v; cbn [hdr_size enc_log_header]; [split; [apply zlen_nonneg|apply sub_zero]|].
    destruct (log_version_v2_header b base Hv) as [H8 Hs]. split; [lia|exact Hs]. }
  destruct Hhdr as [Hhle Hhsub].
  assert (Hele : e <= zlen b).
  { destruct (Z.eq_dec (recs_size v ms) 0) as [Ez|Ez]; [lia|].
    assert (zlen (sub b (hdr_size v) (e - hdr_size v)) = e - hdr_size v) by (rewrite Hsub, Hzl; lia).
    pose proof (sub_full_le b (hdr_size v) (e - hdr_size v) Hh ltac:(lia) H). lia. }
  split; [exact Hr|]. split; [exact Hall|]. split; [unfold log_size; lia|]. split; [exact Hele|].
  split.
  - unfold enc_log. rewrite <- Hsub, <- Hhsub.
    destruct v; cbn [hdr_size] in *.
    + rewrite sub_zero. cbn [app]. now rewrite Z.sub_0_r.
    + replace e with (8 + (e - 8)) at 1 by lia. apply (sub_concat b 0 8 (e - 8)); try lia.
      * apply zlen_sub_exact; lia.
      * change (0 + 8) with 8. rewrite Hsub, Hzl. lia.
  - destruct fin; [lia|exact Hfin|exact I].
Qed.

(* enough fuel: the scan never stops for lack of it *)
Lemma scan_log_fuel crc v b : forall fuel pos recs e fin,
  bytes_ok b -> 0 <= pos -> (Z.to_nat (zlen b - pos) < fuel)%nat ->
  scan_log crc fuel v b pos = (recs, e, fin) -> fin <> ScanFuel.
Proof.
  induction fuel as [|f IH]; intros pos recs e fin Hok Hpos Hf E; [lia|]. cbn [scan_log] in E.
  destruct (read_rec crc v b pos) as [[m nxt]|err] eqn:Er.
  - destruct (scan_log crc f v b nxt) as [[l p] e'] eqn:Es. injection E as <- <- <-.
    destruct (read_rec_sound crc v b pos m nxt Hok Hpos Er) as (Hn & Henc & _).
    pose proof (rec_size_pos_28 v m) as H28.
    assert (Hfull : zlen (sub b pos (rec_size v m)) = rec_size v m) by (rewrite Henc; apply enc_rec_length).
    pose proof (sub_full_le b pos (rec_size v m) Hpos ltac:(lia) Hfull).
    eapply (IH nxt l p e' Hok); [lia|lia|exact Es].
  - destruct err; injection E as _ _ <-; discriminate.
Qed.

(* ---------- Recover and Check on bytes *)

Section RecoverCheck.
Variables crc H : bytes -> Z.
Hypothesis Hcrc : crc_range crc.

Definition index_is (p : params) (base : Z) (idx : option bytes) (items : list item) : Prop :=
  match idx with None => True | Some ib => exists iv, index_read p base ib = Ok (iv, items) end.

Lemma scan_fuel_enough (b : bytes) v : (Z.to_nat (zlen b - hdr_size v) < scan_fuel_of b)%nat.
Proof. unfold scan_fuel_of, zlen. destruct v; cbn [hdr_size]; lia. Qed.

Lemma no_record_at_end v (b : bytes) e m rest' :
  msg_ok m -> 0 <= e <= zlen b -> sub b e (zlen b - e) = enc_rec crc v m ++ rest' ->
  read_rec crc v b e = Ok (m, e + rec_size v m).
Proof.
  intros Hm He Hs. pose proof (split2 b e He) as Hb. rewrite Hs in Hb.
  assert (Hl : zlen (sub b 0 e) = e) by (apply zlen_sub_exact; lia).
  set (pre := sub b 0 e) in *. clearbody pre. clear Hs He. subst b. subst e. apply read_rec_roundtrip; assumption.
Qed.

(* Recover keeps precisely the longest prefix of valid records: the new log file is the encoding of
   messages, it is a prefix of the old file, and what follows it in the old file does not begin with the
   encoding of any message; the index afterwards is absent, the untouched old one if it reads as the
   derived items, or the encoding of the derived items *)
Theorem recover_keeps_valid_prefix p base b idx newlog idx' :
  bytes_ok b -> recover_bytes crc H p base b idx = Ok (newlog, idx') ->
  exists v ms rest,
    log_version b base = Ok v /\ Forall msg_ok ms /\ newlog = enc_log crc v ms /\ b = newlog ++ rest /\
    (forall m rest', msg_ok m -> rest <> enc_rec crc v m ++ rest') /\
    let items := scan_items H p (placed v (hdr_size v) ms) in
    match idx' with
    | None => True
    | Some ib => (idx = Some ib /\ index_is p base idx items) \/ exists iv, ib = enc_index iv p items
    end.
Proof.
  intros Hok. unfold recover_bytes. destruct (log_version b base) as [v|] eqn:Ev; [|discriminate]. cbn [bind].
  destruct (scan_log crc (scan_fuel_of b) v b (hdr_size v)) as [[recs e] fin] eqn:Es.
  assert (Hh : 0 <= hdr_size v) by (destruct v; cbn; lia).
  pose proof (scan_log_fuel crc v b _ _ _ _ _ Hok Hh (scan_fuel_enough b v) Es) as Hnf.
  destruct (scan_file crc v b base _ _ _ _ Hok Ev Es) as (Hr & Hall & He & Hele & Hsub & Hfin).
  set (ms := map snd recs) in *.
  assert (He0 : 0 <= e). { rewrite He. unfold log_size. pose proof (recs_size_nonneg_codec v ms). lia. }
  set (newl := match fin with ScanCorrupt => enc_log crc v ms | _ => b end).
  assert (Hnew : newl = enc_log crc v ms /\ b = newl ++ sub b e (zlen b - e)).
  { pose proof (split2 b e ltac:(lia)) as Hsp. rewrite Hsub in Hsp.
    destruct fin; unfold newl; [|split; [reflexivity|exact Hsp]|congruence].
    subst e. rewrite Hfin in *. rewrite Z.sub_diag, sub_zero, app_nil_r in Hsp. split; [exact Hsp|].
    rewrite Z.sub_diag, sub_zero, app_nil_r. reflexivity. }
  destruct Hnew as [Hn1 Hn2].
  assert (Hmax : forall m rest', msg_ok m -> sub b e (zlen b - e) <> enc_rec crc v m ++ rest').
  { intros m rest' Hm Hc. pose proof (no_record_at_end v b e m rest' Hm ltac:(lia) Hc) as Hrd.
    destruct fin; [|destruct Hfin as (err & Herr & _); congruence|congruence].
    rewrite Hfin, Z.sub_diag, sub_zero in Hc. destruct (enc_rec crc v m) eqn:Een; [|discriminate].
    pose proof (enc_rec_length crc v m) as Hl. pose proof (rec_size_pos_28 v m). rewrite Een in Hl. cbn in Hl. lia. }
  assert (Hitems : scan_items H p recs = scan_items H p (placed v (hdr_size v) ms)) by (rewrite Hr at 1; reflexivity).
  intros E.
  assert (Hcore : exists i', (match fin with ScanFuel => Err EOutOfFuel | _ =>
             match idx with
             | None => Ok (newl, None)
             | Some ib => match index_read p base ib with
                          | Err _ => Ok (newl, None)
                          | Ok (iv, have) => if list_eqb item_eqb have (scan_items H p recs) then Ok (newl, Some ib)
                                             else Ok (newl, Some (enc_index iv p (scan_items H p recs)))
                          end
             end end) = Ok (newlog, idx') /\ i' = idx').
  { exists idx'. split; [|reflexivity]. destruct fin; try congruence; exact E. }
  destruct Hcore as (_ & Hc & _). clear E.
  assert (Hres : newlog = newl /\
     match idx' with None => True | Some ib =>
        (idx = Some ib /\ index_is p base idx (scan_items H p recs)) \/ exists iv, ib = enc_index iv p (scan_items H p recs) end).
  { destruct fin; [|
    |congruence].
    - destruct idx as [ib|]; [|injection Hc as <- <-; split; [reflexivity|exact I]].
      destruct (index_read p base ib) as [[iv have]|] eqn:Eir; [|injection Hc as <- <-; split; [reflexivity|exact I]].
      destruct (list_eqb item_eqb have (scan_items H p recs)) eqn:Eq; injection Hc as <- <-; (split; [reflexivity|]).
      + left. split; [reflexivity|]. exists iv. apply items_eqb_eq in Eq. now subst have.
      + right. exists iv. reflexivity.
    - destruct idx as [ib|]; [|injection Hc as <- <-; split; [reflexivity|exact I]].
      destruct (index_read p base ib) as [[iv have]|] eqn:Eir; [|injection Hc as <- <-; split; [reflexivity|exact I]].
      destruct (list_eqb item_eqb have (scan_items H p recs)) eqn:Eq; injection Hc as <- <-; (split; [reflexivity|]).
      + left. split; [reflexivity|]. exists iv. apply items_eqb_eq in Eq. now subst have.
      + right. exists iv. reflexivity. }
  destruct Hres as [-> Hidx].
  exists v, ms, (sub b e (zlen b - e)). split; [reflexivity|]. split; [exact Hall|]. split; [exact Hn1|]. split; [exact Hn2|].
  split; [exact Hmax|]. cbv zeta. rewrite <- Hitems. exact Hidx.
Qed.

End RecoverCheck.

Section RecoverCheck2.
Variables crc H : bytes -> Z.
Hypothesis Hcrc : crc_range crc.

(* byte-for-byte no-op on an undamaged segment: a log file that is the encoding of messages, with no
   index or an index that reads as the derived items *)
Theorem recover_noop p base v ms idx :
  Forall msg_ok ms -> log_version (enc_log crc v ms) base = Ok v ->
  index_is p base idx (scan_items H p (placed v (hdr_size v) ms)) ->
  recover_bytes crc H p base (enc_log crc v ms) idx = Ok (enc_log crc v ms, idx).
Proof.
  intros Hall Hv Hidx. unfold recover_bytes. rewrite Hv. cbn [bind].
  rewrite (scan_encoded_log crc v ms Hcrc Hall).
  destruct idx as [ib|]; [|reflexivity]. destruct Hidx as (iv & Hir). rewrite Hir.
  replace (list_eqb item_eqb _ _) with true by (symmetry; apply items_eqb_eq; reflexivity). reflexivity.
Qed.

(* Check succeeds if and only if the log file parses completely (it is the encoding of messages) and the
   index file, if present, reads as the index derived from it *)
Theorem check_iff p base b idx :
  bytes_ok b ->
  (check_bytes crc H p base b idx = Ok tt <->
   exists v ms, log_version b base = Ok v /\ Forall msg_ok ms /\ b = enc_log crc v ms /\
                index_is p base idx (scan_items H p (placed v (hdr_size v) ms))).
Proof.
  intros Hok. split.
  - unfold check_bytes. destruct (log_version b base) as [v|] eqn:Ev; [|discriminate]. cbn [bind].
    destruct (scan_log crc (scan_fuel_of b) v b (hdr_size v)) as [[recs e] fin] eqn:Es.
    destruct (scan_file crc v b base _ _ _ _ Hok Ev Es) as (Hr & Hall & He & Hele & Hsub & Hfin).
    destruct fin; try discriminate. intros E. exists v, (map snd recs). split; [reflexivity|]. split; [exact Hall|].
    split; [rewrite <- Hsub, Hfin; symmetry; apply sub_0_all|].
    destruct idx as [ib|]; [|exact I]. destruct (index_read p base ib) as [[iv have]|] eqn:Eir; [|discriminate]. cbn [bind snd] in E.
    destruct (list_eqb item_eqb (scan_items H p recs) have) eqn:Eq; [|discriminate].
    apply items_eqb_eq in Eq. exists iv. rewrite <- Hr. now subst have.
  - intros (v & ms & Hv & Hall & -> & Hidx). unfold check_bytes. rewrite Hv. cbn [bind].
    rewrite (scan_encoded_log crc v ms Hcrc Hall).
    destruct idx as [ib|]; [|reflexivity]. destruct Hidx as (iv & Hir). rewrite Hir. cbn [bind snd].
    replace (list_eqb item_eqb _ _) with true by (symmetry; apply items_eqb_eq; reflexivity). reflexivity.
Qed.

(* on a clean log file Recover never changes the log, whatever the index file holds *)
Theorem recover_clean_log p base v ms idx :
  Forall msg_ok ms -> log_version (enc_log crc v ms) base = Ok v ->
  exists idx', recover_bytes crc H p base (enc_log crc v ms) idx = Ok (enc_log crc v ms, idx').
Proof.
  intros Hall Hv. unfold recover_bytes. rewrite Hv. cbn [bind].
  rewrite (scan_encoded_log crc v ms Hcrc Hall).
  destruct idx as [ib|]; [|eexists; reflexivity].
  destruct (index_read p base ib) as [[iv have]|]; [|eexists; reflexivity].
  destruct (list_eqb item_eqb have _); eexists; reflexivity.
Qed.

(* appending further valid records to a clean log keeps it clean *)
Lemma enc_log_app v ms ms' : enc_log crc v (ms ++ ms') = enc_log crc v ms ++ concat (map (enc_rec crc v) ms').
Proof. unfold enc_log. now rewrite map_app, concat_app, app_assoc. Qed.

End RecoverCheck2.

(* ---------- index files: what the writer encodes, index.Read returns *)

Definition item_ok (p : params) (it : item) : Prop :=
  - two63 <= ioff it < two63 /\ - two63 <= ipos it < two63 /\
  (if ptimes p then - two63 <= its it < two63 else its it = 0) /\
  (if pkeys p then 0 <= ihash it < two64z else ihash it = 0).

Lemma sub_at (pre x post : bytes) p n : zlen pre = p -> zlen x = n -> sub (pre ++ x ++ post) p n = x.
Proof. intros <- <-. apply sub_mid. Qed.

Lemma sub_at0 (x post : bytes) n : zlen x = n -> sub (x ++ post) 0 n = x.
Proof. intros <-. apply sub_prefix. Qed.

Lemma debe_be8_u z : 0 <= z < two64z -> debe (be 8 z) = z.
Proof. intros Hz. rewrite debe_be. change (256 ^ Z.of_nat 8) with two64z. apply Z.mod_small. exact Hz. Qed.

Lemma dec_items_step p f it rest :
  item_ok p it -> dec_items p (S f) (enc_item p it ++ rest) = it :: dec_items p f rest.
Proof.
  intros (Ho & Hp & Ht & Hh). pose proof (enc_item_length p it) as Hl.
  assert (Hisz : 16 <= item_size p) by (unfold item_size; destruct (ptimes p), (pkeys p); lia).
  cbn [dec_items]. destruct (enc_item p it ++ rest) as [|x0 b0] eqn:Eb.
  { apply (f_equal (@length _)) in Eb. rewrite app_length in Eb. unfold zlen in Hl. cbn in Eb. lia. }
  rewrite <- Eb. clear Eb x0 b0.
  rewrite (sub_at0 (enc_item p it) rest (item_size p) Hl).
  assert (Hskip : skipn (Z.to_nat (item_size p)) (enc_item p it ++ rest) = rest).
  { replace (Z.to_nat (item_size p)) with (length (enc_item p it)) by (unfold zlen in Hl; lia). apply skipn_app_exact. }
  rewrite Hskip. f_equal.
  assert (H8 : forall z, zlen (be 8 z) = 8) by (intros z; rewrite zlen_be; reflexivity).
  unfold enc_item.
  assert (E1 : forall tl, sub (be 8 (ioff it) ++ tl) 0 8 = be 8 (ioff it)) by (intros tl; apply sub_at0, H8).
  assert (E2 : forall tl, sub (be 8 (ioff it) ++ be 8 (ipos it) ++ tl) 8 8 = be 8 (ipos it)) by (intros tl; apply sub_at; apply H8).
  rewrite E1, E2. rewrite !debe_be, !i64_roundtrip by assumption.
  destruct it as [o ps t h]. cbn [ioff ipos its ihash] in *.
  destruct (ptimes p), (pkeys p); cbn [app].
  - assert (E3 : sub (be 8 o ++ be 8 ps ++ be 8 t ++ be 8 h) 16 8 = be 8 t).
    { rewrite (app_assoc (be 8 o)). apply sub_at; [rewrite zlen_app, !H8; reflexivity|apply H8]. }
    assert (E4 : sub (be 8 o ++ be 8 ps ++ be 8 t ++ be 8 h) 24 8 = be 8 h).
    { rewrite (app_assoc (be 8 o)), (app_assoc (be 8 o ++ be 8 ps)). rewrite <- (app_nil_r (be 8 h)).
      apply sub_at; [rewrite !zlen_app, !H8; reflexivity|apply H8]. }
    rewrite E3, E4. rewrite debe_be, i64_roundtrip by assumption. rewrite debe_be8_u by assumption. reflexivity.
  - assert (E3 : sub (be 8 o ++ be 8 ps ++ be 8 t ++ []) 16 8 = be 8 t).
    { rewrite (app_assoc (be 8 o)). apply sub_at; [rewrite zlen_app, !H8; reflexivity|apply H8]. }
    rewrite E3. rewrite debe_be, i64_roundtrip by assumption. subst h. reflexivity.
  - assert (E4 : sub (be 8 o ++ be 8 ps ++ be 8 h) 16 8 = be 8 h).
    { rewrite (app_assoc (be 8 o)). rewrite <- (app_nil_r (be 8 h)). apply sub_at; [rewrite zlen_app, !H8; reflexivity|apply H8]. }
    rewrite E4. rewrite debe_be8_u by assumption. subst t. reflexivity.
  - subst t h. reflexivity.
Qed.

Lemma dec_items_enc p : forall items fuel,
  Forall (item_ok p) items -> (length items <= fuel)%nat ->
  dec_items p fuel (concat (map (enc_item p) items)) = items.
Proof.
  induction items as [|it r IH]; intros fuel Hall Hf.
  - destruct fuel; reflexivity.
  - destruct fuel; [cbn in Hf; lia|]. inversion Hall as [|? ? Hit Hr]; subst. cbn [map concat].
    rewrite dec_items_step by assumption. f_equal. apply IH; [assumption|cbn in Hf; lia].
Qed.

Lemma zlen_concat_items p items : zlen (concat (map (enc_item p) items)) = zlen items * item_size p.
Proof.
  induction items as [|it r IH]; [reflexivity|]. cbn [map concat]. rewrite zlen_app, enc_item_length, IH.
  unfold zlen. cbn [length]. lia.
Qed.

Theorem index_read_enc p base v items :
  Forall (item_ok p) items ->
  (v = V1 -> match items with [] => True | it :: _ => ioff it = base /\ 0 <= base end) ->
  index_read p base (enc_index v p items) = Ok (v, items).
Proof.
  intros Hall Hv1. assert (Hisz : 16 <= item_size p) by (unfold item_size; destruct (ptimes p), (pkeys p); lia).
  pose proof (zlen_concat_items p items) as Hzl. pose proof (zlen_nonneg items) as Hnn.
  destruct v.
  - destruct items as [|it r]; [reflexivity|].
    destruct (Hv1 eq_refl) as [Hb Hb0]. apply Forall_cons_iff in Hall. destruct Hall as [Hit Hr].
    unfold enc_index, index_read. cbn [enc_idx_header app].
    set (data := concat (map (enc_item p) (it :: r))) in *.
    assert (Hlen : zlen data = zlen (it :: r) * item_size p) by exact Hzl.
    assert (Hpos : 1 <= zlen (it :: r)) by (unfold zlen; cbn [length]; lia).
    destruct (zlen data =? 0) eqn:E0; [nia|].
    unfold idx_version. rewrite E0. destruct (zlen data <? 8) eqn:E8; [nia|].
    assert (Hdata : data = be 8 (ioff it) ++ (be 8 (ipos it) ++ (if ptimes p then be 8 (its it) else []) ++ (if pkeys p then be 8 (ihash it) else [])) ++ concat (map (enc_item p) r)).
    { unfold data. cbn [map concat]. unfold enc_item. rewrite <- !app_assoc. reflexivity. }
    pose proof Hit as (Ho & _).
    assert (Hmag : bytes_eqb (sub (sub data 0 8) 0 6) idx_magic = false).
    { rewrite Hdata. replace (sub (be 8 (ioff it) ++ _) 0 8) with (be 8 (ioff it)) by (symmetry; exact (sub_prefix (be 8 (ioff it)) _)).
      destruct (be_first 7 (ioff it) ltac:(lia)) as (rr & Hrr). change (S 7) with 8%nat in Hrr.
      assert (Hl7 : length rr = 7%nat) by (pose proof (be_length 8 (ioff it)) as Hl; rewrite Hrr in Hl; cbn in Hl; lia).
      rewrite Hrr. set (x := Z.to_N ((ioff it / 256 ^ Z.of_nat 7) mod 256)).
      assert (Hx : (x < 128)%N).
      { unfold x. change (256 ^ Z.of_nat 7) with 72057594037927936. unfold two63 in Ho.
        assert (0 <= ioff it / 72057594037927936 < 128) by (split; [apply Z.div_pos; lia|apply Z.div_lt_upper_bound; lia]).
        rewrite Z.mod_small by lia. lia. }
      destruct rr as [|r1 [|r2 [|r3 [|r4 [|r5 [|r6 [|r7 [|]]]]]]]]; cbn in Hl7; try lia.
      unfold sub. cbn. change (Pos.to_nat 6) with 6%nat. unfold idx_magic. cbn [firstn bytes_eqb].
      destruct (x =? 255)%N eqn:E; [lia|reflexivity]. }
    rewrite Hmag. cbn [bind].
    assert (Hh : i64 (debe (sub data 0 8)) = base).
    { rewrite Hdata. replace (sub (be 8 (ioff it) ++ _) 0 8) with (be 8 (ioff it)) by (symmetry; exact (sub_prefix (be 8 (ioff it)) _)).
      rewrite debe_be, i64_roundtrip by assumption. exact Hb. }
    rewrite Hh, Z.eqb_refl. cbn [bind].
    rewrite Hlen, Z.mod_mul by lia. cbn [negb Z.eqb].
    f_equal. f_equal. apply dec_items_enc; [constructor; assumption|].
    unfold zlen in Hlen. nia.
  - unfold enc_index, index_read.
    set (data := concat (map (enc_item p) items)) in *.
    assert (Hl : zlen (enc_idx_header V2 p ++ data) = 8 + zlen data) by (rewrite zlen_app; reflexivity).
    pose proof (zlen_nonneg data). rewrite Hl. destruct (8 + zlen data =? 0) eqn:E0; [lia|].
    unfold idx_version. rewrite Hl, E0. destruct (8 + zlen data <? 8) eqn:E8; [lia|].
    replace (sub (enc_idx_header V2 p ++ data) 0 8) with (enc_idx_header V2 p) by (symmetry; exact (sub_prefix (enc_idx_header V2 p) data)).
    assert (Hver : (let h := enc_idx_header V2 p in
              if bytes_eqb (sub h 0 6) idx_magic then
                match sub h 6 2 with
                | [vb; fb] =>
                  if (1 <? vb)%N then Err EIndexCorrupted
                  else if negb (Bool.eqb (ptimes p) (N.testbit fb 0)) then Err EIndexCorrupted
                  else if negb (Bool.eqb (pkeys p) (N.testbit fb 1)) then Err EIndexCorrupted
                  else if negb (N.shiftr fb 2 =? 0)%N then Err EIndexCorrupted
                  else if (vb =? 1)%N then Ok V2 else Err EIndexCorrupted
                | _ => Err EIndexCorrupted
                end
              else if i64 (debe h) =? base then Ok V1 else Err EIndexCorrupted) = Ok V2).
    { destruct p as [pt pk]. destruct pt, pk; reflexivity. }
    cbv zeta in Hver. rewrite Hver. cbn [bind].
    replace (skipn 8 (enc_idx_header V2 p ++ data)) with data by (symmetry; exact (skipn_app_exact (enc_idx_header V2 p) data)).
    rewrite Hzl, Z.mod_mul by lia. cbn [negb Z.eqb].
    f_equal. f_equal. apply dec_items_enc; [assumption|]. unfold zlen in Hzl. fold data in Hzl. nia.
Qed.

(* ---------- after Recover, Check succeeds, and keeps succeeding after appends *)

Section RecoverThenCheck.
Variables crc H : bytes -> Z.
Hypothesis Hcrc : crc_range crc.
Hypothesis Hhash : forall k, 0 <= H k < two64z.

Lemma scan_items_go_ok p v : forall ms pos ts,
  Forall msg_ok ms -> 0 <= pos -> pos + recs_size v ms < two63 -> - two63 <= ts < two63 ->
  Forall (item_ok p)
    ((fix go (l : list (Z * msg)) (ts : Z) : list item :=
        match l with
        | [] => []
        | (pos, m) :: r => let it := new_item H p m pos ts in it :: go r (its it)
        end) (placed v pos ms) ts).
Proof.
  induction ms as [|m r IH]; intros pos ts Hall Hpos Hend Hts; [constructor|].
  apply Forall_cons_iff in Hall. destruct Hall as [Hm Hr]. destruct Hm as (Ho & Ht & Hsz).
  cbn [placed recs_size] in *. pose proof (rec_size_pos_28 v m). pose proof (recs_size_nonneg_codec v r).
  constructor.
  - unfold item_ok, new_item. cbn [ioff ipos its ihash]. split; [assumption|]. split; [unfold two63 in *; lia|].
    split; [destruct (ptimes p); [unfold two63 in *; lia|reflexivity]|]. destruct (pkeys p); [apply Hhash|reflexivity].
  - apply IH; try assumption; try lia. unfold new_item. cbn [its]. destruct (ptimes p); unfold two63 in *; lia.
Qed.

Lemma scan_items_ok p v ms pos :
  Forall msg_ok ms -> 0 <= pos -> pos + recs_size v ms < two63 ->
  Forall (item_ok p) (scan_items H p (placed v pos ms)).
Proof. intros. unfold scan_items. apply scan_items_go_ok; try assumption. unfold two63. lia. Qed.

Theorem recover_then_check p base b idx newlog idx' :
  bytes_ok b -> zlen b < two63 -> 0 <= base < two63 ->
  (* the segment file is named after its first record *)
  (forall v m nxt, log_version b base = Ok v -> read_rec crc v b (hdr_size v) = Ok (m, nxt) -> moff m = base) ->
  recover_bytes crc H p base b idx = Ok (newlog, idx') ->
  check_bytes crc H p base newlog idx' = Ok tt /\
  (* idempotent: recovering again changes nothing *)
  recover_bytes crc H p base newlog idx' = Ok (newlog, idx').
Proof.
  intros Hok Hlen Hbase Hnamed Hrec.
  destruct (recover_keeps_valid_prefix crc H Hcrc p base b idx newlog idx' Hok Hrec)
    as (v & ms & rest & Hv & Hall & Hnl & Hb & _ & Hidx).
  cbv zeta in Hidx. set (items := scan_items H p (placed v (hdr_size v) ms)) in *.
  (* the first record *)
  assert (Hfirst : match ms with [] => True | m :: _ => moff m = base end).
  { destruct ms as [|m r]; [exact I|]. apply Forall_cons_iff in Hall. destruct Hall as [Hm _].
    apply (Hnamed v m (hdr_size v + rec_size v m) Hv).
    rewrite Hb, Hnl. unfold enc_log. cbn [map concat]. rewrite <- !app_assoc.
    rewrite <- (enc_log_header_length v). apply read_rec_roundtrip; assumption. }
  assert (Hv' : log_version newlog base = Ok v).
  { rewrite Hnl. destruct v; [apply log_version_enc_v1|apply log_version_enc_v2].
    destruct ms as [|m r]; [exact I|]. split; [exact Hfirst|exact Hbase]. }
  assert (Hsize : hdr_size v + recs_size v ms < two63).
  { assert (zlen newlog = log_size v ms).
    { rewrite Hnl. unfold enc_log, log_size. rewrite zlen_app, enc_log_header_length, zlen_concat_enc. reflexivity. }
    assert (zlen b = zlen newlog + zlen rest) by (rewrite Hb at 1; apply zlen_app).
    pose proof (zlen_nonneg rest). unfold log_size in *. lia. }
  assert (Hitems_ok : Forall (item_ok p) items).
  { apply scan_items_ok; try assumption. destruct v; cbn; lia. }
  assert (Hix : index_is p base idx' items).
  { destruct idx' as [ib|]; [|exact I]. destruct Hidx as [[-> Hi]|(iv & ->)]; [exact Hi|].
    exists iv. apply index_read_enc; [exact Hitems_ok|].
    intros ->. unfold items, scan_items. destruct ms as [|m r]; [exact I|]. cbn [placed]. cbn [ioff new_item]. split; [exact Hfirst|lia]. }
  assert (Hbok : bytes_ok newlog).
  { unfold bytes_ok in *. rewrite Hb in Hok. apply Forall_app in Hok. tauto. }
  split.
  - apply (check_iff crc H Hcrc p base newlog idx' Hbok). exists v, ms. split; [exact Hv'|]. split; [exact Hall|]. split; [exact Hnl|exact Hix].
  - rewrite Hnl. apply recover_noop; try assumption. rewrite <- Hnl. exact Hv'.
Qed.

(* appending valid records to a recovered (clean) log, with the derived index, still passes Check *)
Theorem check_after_append p base v ms ms' idx :
  Forall msg_ok ms -> Forall msg_ok ms' ->
  log_version (enc_log crc v (ms ++ ms')) base = Ok v ->
  index_is p base idx (scan_items H p (placed v (hdr_size v) (ms ++ ms'))) ->
  check_bytes crc H p base (enc_log crc v ms ++ concat (map (enc_rec crc v) ms')) idx = Ok tt.
Proof.
  intros Hm Hm' Hv Hidx. rewrite <- enc_log_app.
  assert (Hall : Forall msg_ok (ms ++ ms')) by (apply Forall_app; split; assumption).
  unfold check_bytes. rewrite Hv. cbn [bind]. rewrite (scan_encoded_log crc v (ms ++ ms') Hcrc Hall).
  destruct idx as [ib|]; [|reflexivity]. destruct Hidx as (iv & Hir). rewrite Hir. cbn [bind snd].
  replace (list_eqb item_eqb _ _) with true by (symmetry; apply items_eqb_eq; reflexivity). reflexivity.
Qed.

End RecoverThenCheck.

(* ---------- torn appends and cut files (C05, C06) *)

Section Torn.
Variables crc H : bytes -> Z.
Hypothesis Hcrc : crc_range crc.

Definition proper_prefix (t x : bytes) : Prop := exists tl, x = t ++ tl /\ tl <> [] /\ t <> [].

Lemma firstn_sub (x : bytes) n : 0 <= n -> sub x 0 n = firstn (Z.to_nat n) x.
Proof.
  intros Hn. unfold sub. destruct ((0 <? 0) || (n <? 0)) eqn:E; [lia|]. pose proof (zlen_nonneg x).
  rewrite (Z.min_l 0 (zlen x)) by lia. cbn [Z.to_nat skipn]. unfold zlen in *.
  destruct (Z.le_gt_cases n (Z.of_nat (length x))).
  - now rewrite (Z.min_l n) by lia.
  - rewrite (Z.min_r n) by lia. rewrite Nat2Z.id. rewrite !firstn_all2; [reflexivity|lia|lia].
Qed.

(* a record cut anywhere inside is rejected as corruption, never read as data and never taken for the
   clean end of the file *)
Lemma torn_rejected v pre m t :
  msg_ok m -> proper_prefix t (enc_rec crc v m) -> read_rec crc v (pre ++ t) (zlen pre) = Err ELogCorrupted.
Proof.
  intros Hm (tl & Hx & Htl & Ht).
  pose proof (enc_rec_length crc v m) as Hl. pose proof (rec_size_pos_28 v m) as H28.
  assert (Hlt : zlen t < rec_size v m).
  { rewrite <- Hl, Hx, zlen_app. destruct tl; [congruence|]. unfold zlen. cbn [length]. lia. }
  assert (Htpos : 0 < zlen t) by (destruct t; [congruence|unfold zlen; cbn [length]; lia]).
  (* the header slice of the torn file is the header slice of t *)
  assert (Hsub : forall p n, 0 <= p -> sub (pre ++ t) (zlen pre + p) n = sub t p n) by (intros; now apply sub_shift).
  assert (Hhdr0 : sub (pre ++ t) (zlen pre) 28 = sub t 0 28) by (replace (zlen pre) with (zlen pre + 0) at 1 by lia; apply sub_shift; lia).
  unfold read_rec. cbv zeta. rewrite Hhdr0.
  destruct (Z.lt_ge_cases (zlen t) 28) as [Hshort|Hfull].
  - (* not even a header *)
    assert (Hz : zlen (sub t 0 28) = zlen t).
    { rewrite firstn_sub by lia. unfold zlen. rewrite firstn_length. unfold zlen in *. lia. }
    rewrite Hz. destruct (zlen t =? 0) eqn:E0; [lia|]. destruct (zlen t <? 28) eqn:E28; [reflexivity|lia].
  - (* the header is complete, hence equal to the header of the full record: the lengths are the real
       ones and the payload is short *)
    assert (Hhdr : sub t 0 28 = sub (enc_rec crc v m) 0 28).
    { rewrite Hx. rewrite !firstn_sub by lia. rewrite firstn_app.
      replace (Z.to_nat 28 - length t)%nat with O by (unfold zlen in *; lia). cbn [firstn]. now rewrite app_nil_r. }
    assert (Hh28 : zlen (sub t 0 28) = 28) by (apply zlen_sub_exact; lia).
    rewrite Hh28. cbn [Z.eqb Z.ltb Z.compare]. rewrite Hhdr.
    destruct Hm as (Ho & Htm & Hsz). pose proof (zlen_nonneg (mkey m)). pose proof (zlen_nonneg (mval m)).
    assert (H8 : forall z, zlen (be 8 z) = 8) by (intros z; rewrite zlen_be; reflexivity).
    assert (H4 : forall z, zlen (be 4 z) = 4) by (intros z; rewrite zlen_be; reflexivity).
    assert (Hkl : i32 (debe (be 4 (zlen (mkey m)))) = zlen (mkey m)) by (rewrite debe_be; apply u32_roundtrip; unfold max_body, two31 in *; lia).
    assert (Hvl : i32 (debe (be 4 (zlen (mval m)))) = zlen (mval m)) by (rewrite debe_be; apply u32_roundtrip; unfold max_body, two31 in *; lia).
    destruct v; unfold enc_rec.
    + (* V1: off time kl vl crc | key val *)
      set (k := mkey m) in *. set (vv := mval m) in *.
      set (h28 := be 8 (moff m) ++ be 8 (mtime m) ++ be 4 (zlen k) ++ be 4 (zlen vv) ++ be 4 (crc (k ++ vv))).
      assert (Hh : zlen h28 = 28) by (unfold h28; rewrite !zlen_app, !H8, !H4; reflexivity).
      replace (be 8 (moff m) ++ be 8 (mtime m) ++ be 4 (zlen k) ++ be 4 (zlen vv) ++ be 4 (crc (k ++ vv)) ++ k ++ vv)
        with (h28 ++ k ++ vv) by (unfold h28; rewrite <- !app_assoc; reflexivity).
      rewrite (sub_at0 h28 (k ++ vv) 28 Hh).
      assert (Ek : sub h28 16 4 = be 4 (zlen k)).
      { unfold h28. rewrite (app_assoc (be 8 (moff m))). apply sub_at; [rewrite zlen_app, !H8; reflexivity|apply H4]. }
      assert (Ev : sub h28 20 4 = be 4 (zlen vv)).
      { unfold h28. rewrite (app_assoc (be 8 (moff m))), (app_assoc (be 8 (moff m) ++ be 8 (mtime m))).
        apply sub_at; [rewrite !zlen_app, !H8, H4; reflexivity|apply H4]. }
      rewrite Ek, Ev, Hkl, Hvl.
      destruct ((zlen k <? 0) || (zlen vv <? 0)) eqn:En; [lia|]. destruct (max_body <? zlen k + zlen vv) eqn:Emx; [lia|].
      rewrite Hsub by lia.
      assert (Hpl : zlen (sub t 28 (zlen k + zlen vv)) < zlen k + zlen vv).
      { unfold rec_size, rec_overhead in Hlt. fold k vv in Hlt. unfold sub.
        destruct ((28 <? 0) || (zlen k + zlen vv <? 0)) eqn:E; [lia|]. unfold zlen at 1. rewrite firstn_length, skipn_length. unfold zlen in *. lia. }
      destruct (zlen (sub t 28 (zlen k + zlen vv)) <? zlen k + zlen vv) eqn:Ep; [reflexivity|lia].
    + (* V2: crc | off time kl vl key val trailer *)
      set (k := mkey m) in *. set (vv := mval m) in *.
      set (body := be 8 (moff m) ++ be 8 (mtime m) ++ be 4 (zlen k) ++ be 4 (zlen vv) ++ k ++ vv ++ trailer).
      set (h28 := be 4 (crc body) ++ be 8 (moff m) ++ be 8 (mtime m) ++ be 4 (zlen k) ++ be 4 (zlen vv)).
      assert (Hh : zlen h28 = 28) by (unfold h28; rewrite !zlen_app, !H8, !H4; reflexivity).
      replace (be 4 (crc body) ++ body) with (h28 ++ k ++ vv ++ trailer) by (unfold h28, body; rewrite <- !app_assoc; reflexivity).
      rewrite (sub_at0 h28 (k ++ vv ++ trailer) 28 Hh).
      assert (Ek : sub h28 20 4 = be 4 (zlen k)).
      { unfold h28. rewrite (app_assoc (be 4 _)), (app_assoc (be 4 _ ++ be 8 _)).
        apply sub_at; [rewrite !zlen_app, !H8, H4; reflexivity|apply H4]. }
      assert (Ev : sub h28 24 4 = be 4 (zlen vv)).
      { unfold h28. rewrite (app_assoc (be 4 _)), (app_assoc (be 4 _ ++ be 8 _)), (app_assoc ((be 4 _ ++ be 8 _) ++ be 8 _)).
        rewrite <- (app_nil_r (be 4 (zlen vv))). apply sub_at; [rewrite !zlen_app, !H8, !H4; reflexivity|apply H4]. }
      rewrite Ek, Ev, Hkl, Hvl.
      destruct ((zlen k <? 0) || (zlen vv <? 0)) eqn:En; [lia|]. destruct (max_body <? zlen k + zlen vv) eqn:Emx; [lia|].
      rewrite Hsub by lia.
      assert (Hpl : zlen (sub t 28 (zlen k + zlen vv + 8)) < zlen k + zlen vv + 8).
      { unfold rec_size, rec_overhead in Hlt. fold k vv in Hlt. unfold sub.
        destruct ((28 <? 0) || (zlen k + zlen vv + 8 <? 0)) eqn:E; [lia|]. unfold zlen at 1. rewrite firstn_length, skipn_length. unfold zlen in *. lia. }
      destruct (zlen (sub t 28 (zlen k + zlen vv + 8)) <? zlen k + zlen vv + 8) eqn:Ep; [reflexivity|lia].
Qed.

End Torn.

Section Torn2.
Variables crc H : bytes -> Z.
Hypothesis Hcrc : crc_range crc.

Lemma scan_log_encoded_post v : forall ms pre post fuel err,
  Forall msg_ok ms -> (length ms < fuel)%nat ->
  read_rec crc v (pre ++ concat (map (enc_rec crc v) ms) ++ post) (zlen pre + recs_size v ms) = Err err ->
  scan_log crc fuel v (pre ++ concat (map (enc_rec crc v) ms) ++ post) (zlen pre) =
  (placed v (zlen pre) ms, zlen pre + recs_size v ms, if ierr_is_eof err then ScanEOF else ScanCorrupt).
Proof.
  induction ms as [|m r IH]; intros pre post fuel err Hok Hf Herr.
  - destruct fuel; [cbn in Hf; lia|]. cbn [scan_log map concat placed recs_size app] in *.
    rewrite Z.add_0_r in Herr. rewrite Herr. rewrite Z.add_0_r. destruct err; reflexivity.
  - destruct fuel; [cbn in Hf; lia|]. apply Forall_cons_iff in Hok. destruct Hok as [Hm Hr].
    cbn [scan_log map concat placed recs_size] in *. rewrite <- app_assoc.
    rewrite (read_rec_roundtrip crc v pre m (concat (map (enc_rec crc v) r) ++ post) Hcrc Hm).
    assert (Hpos : zlen pre + rec_size v m = zlen (pre ++ enc_rec crc v m)) by (rewrite zlen_app, enc_rec_length; lia).
    rewrite Hpos. rewrite (app_assoc pre).
    rewrite (IH (pre ++ enc_rec crc v m) post fuel err Hr ltac:(cbn in Hf; lia)).
    + f_equal. f_equal. lia.
    + rewrite <- Hpos. rewrite <- app_assoc. rewrite <- app_assoc in Herr. rewrite <- Herr. f_equal. lia.
Qed.

(* a crash part-way through an append: the file is a clean log followed by a proper prefix of the next
   record.  Recover cuts exactly the torn record: every complete record stays. *)
Theorem recover_torn p base v ms m t idx :
  Forall msg_ok ms -> msg_ok m -> proper_prefix t (enc_rec crc v m) ->
  log_version (enc_log crc v ms ++ t) base = Ok v ->
  exists idx', recover_bytes crc H p base (enc_log crc v ms ++ t) idx = Ok (enc_log crc v ms, idx').
Proof.
  intros Hall Hm Ht Hv. unfold recover_bytes. rewrite Hv. cbn [bind].
  assert (Hscan : scan_log crc (scan_fuel_of (enc_log crc v ms ++ t)) v (enc_log crc v ms ++ t) (hdr_size v) =
                  (placed v (hdr_size v) ms, log_size v ms, ScanCorrupt)).
  { unfold enc_log, log_size. rewrite <- app_assoc. rewrite <- (enc_log_header_length v).
    apply (scan_log_encoded_post v ms (enc_log_header v) t _ ELogCorrupted Hall).
    - unfold scan_fuel_of. rewrite !app_length.
      assert (length ms <= length (concat (map (enc_rec crc v) ms)))%nat.
      { clear. induction ms as [|x r IH]; [cbn; lia|]. cbn [map concat]. rewrite app_length.
        pose proof (enc_rec_length crc v x) as Hl. pose proof (rec_size_pos_28 v x). unfold zlen in Hl. cbn [length]. lia. }
      lia.
    - rewrite app_assoc.
      replace (zlen (enc_log_header v) + recs_size v ms) with (zlen (enc_log_header v ++ concat (map (enc_rec crc v) ms)))
        by (rewrite zlen_app, zlen_concat_enc; reflexivity).
      apply (torn_rejected crc H v _ m t Hm Ht). }
  rewrite Hscan.
  assert (Hms : map snd (placed v (hdr_size v) ms) = ms).
  { generalize (hdr_size v). clear. induction ms as [|x r IH]; intros z; [reflexivity|]. cbn [placed map snd]. now rewrite IH. }
  rewrite Hms.
  destruct idx as [ib|]; [|eexists; reflexivity].
  destruct (index_read p base ib) as [[iv have]|]; [|eexists; reflexivity].
  destruct (list_eqb item_eqb have _); eexists; reflexivity.
Qed.

End Torn2.

(* ---------- a clean log cut at an arbitrary byte (power loss keeps a prefix of each file) *)

Section Cut.
Variables crc H : bytes -> Z.
Hypothesis Hcrc : crc_range crc.

Lemma cut_inside v : forall ms n, 0 <= n <= recs_size v ms ->
  exists ms1 ms2 t, ms = ms1 ++ ms2 /\
    firstn (Z.to_nat n) (concat (map (enc_rec crc v) ms)) = concat (map (enc_rec crc v) ms1) ++ t /\
    (t = [] \/ exists m r, ms2 = m :: r /\ proper_prefix t (enc_rec crc v m)) /\
    recs_size v ms1 <= n /\ (forall m r, ms2 = m :: r -> n < recs_size v ms1 + rec_size v m).
Proof.
  induction ms as [|m r IH]; intros n Hn.
  - cbn [recs_size] in Hn. exists [], [], []. replace n with 0 by lia. cbn. repeat split; try lia; try tauto. intros; discriminate.
  - cbn [recs_size map concat] in *. pose proof (rec_size_pos_28 v m) as H28. pose proof (enc_rec_length crc v m) as Hl.
    destruct (Z.lt_ge_cases n (rec_size v m)) as [Hlt|Hge].
    + exists [], (m :: r), (firstn (Z.to_nat n) (enc_rec crc v m)). cbn [app map concat recs_size].
      split; [reflexivity|]. split.
      { rewrite firstn_app. replace (Z.to_nat n - length (enc_rec crc v m))%nat with O by (unfold zlen in Hl; lia).
        cbn [firstn]. now rewrite app_nil_r. }
      split.
      { destruct (Z.eq_dec n 0) as [->|Hn0]; [left; reflexivity|]. right. exists m, r. split; [reflexivity|].
        exists (skipn (Z.to_nat n) (enc_rec crc v m)). split; [symmetry; apply firstn_skipn|]. split.
        - intro Hc. apply (f_equal (@length _)) in Hc. rewrite skipn_length in Hc. unfold zlen in Hl. cbn in Hc. lia.
        - intro Hc. apply (f_equal (@length _)) in Hc. rewrite firstn_length in Hc. unfold zlen in Hl. cbn in Hc. lia. }
      split; [lia|]. intros m' r' E. injection E as <- <-. lia.
    + destruct (IH (n - rec_size v m) ltac:(lia)) as (ms1 & ms2 & t & Hms & Hf & Ht & Hle & Hnext).
      exists (m :: ms1), ms2, t. cbn [app map concat recs_size]. split; [now rewrite Hms|]. split.
      { rewrite firstn_app. rewrite firstn_all2 by (unfold zlen in Hl; lia). rewrite <- app_assoc. f_equal.
        replace (Z.to_nat n - length (enc_rec crc v m))%nat with (Z.to_nat (n - rec_size v m)) by (unfold zlen in Hl; lia). exact Hf. }
      split; [exact Ht|]. split; [lia|]. intros m' r' E. specialize (Hnext m' r' E). lia.
Qed.

(* Recover of a clean log cut anywhere after its header: exactly the records that lie entirely below
   the cut are kept *)
Theorem recover_cut p base v ms n idx :
  Forall msg_ok ms -> hdr_size v <= n <= log_size v ms ->
  log_version (firstn (Z.to_nat n) (enc_log crc v ms)) base = Ok v ->
  exists ms1 ms2 idx', ms = ms1 ++ ms2 /\
    recover_bytes crc H p base (firstn (Z.to_nat n) (enc_log crc v ms)) idx = Ok (enc_log crc v ms1, idx') /\
    log_size v ms1 <= n /\ (forall m r, ms2 = m :: r -> n < log_size v ms1 + rec_size v m).
Proof.
  intros Hall Hn Hv. unfold log_size in Hn.
  destruct (cut_inside v ms (n - hdr_size v) ltac:(lia)) as (ms1 & ms2 & t & Hms & Hf & Ht & Hle & Hnext).
  assert (Hcut : firstn (Z.to_nat n) (enc_log crc v ms) = enc_log crc v ms1 ++ t).
  { unfold enc_log. rewrite firstn_app. pose proof (enc_log_header_length v) as Hhl.
    rewrite firstn_all2 by (unfold zlen in Hhl; lia). rewrite <- app_assoc. f_equal.
    replace (Z.to_nat n - length (enc_log_header v))%nat with (Z.to_nat (n - hdr_size v)) by (unfold zlen in Hhl; lia). exact Hf. }
  assert (Hall1 : Forall msg_ok ms1) by (rewrite Hms in Hall; apply Forall_app in Hall; tauto).
  exists ms1, ms2. rewrite Hcut in *.
  destruct Ht as [->|(m & r & Hm2 & Hpp)].
  - rewrite app_nil_r in *. destruct (recover_clean_log crc H Hcrc p base v ms1 idx Hall1 Hv) as (idx' & Hr).
    exists idx'. split; [exact Hms|]. split.
    + exact Hr.
    + unfold log_size. split; [lia|]. intros m r E. specialize (Hnext m r E). lia.
  - assert (Hm : msg_ok m) by (rewrite Hms, Hm2 in Hall; apply Forall_app in Hall; destruct Hall as [_ Ha]; apply Forall_cons_iff in Ha; tauto).
    destruct (recover_torn crc H Hcrc p base v ms1 m t idx Hall1 Hm Hpp Hv) as (idx' & Hr).
    exists idx'. split; [exact Hms|]. split; [exact Hr|]. unfold log_size. split; [lia|]. intros m' r' E. specialize (Hnext m' r' E). lia.
Qed.

End Cut.

(* ---------- known finding F14, on the model: a log file of 1..7 bytes (a V1 head segment whose first record
   was torn inside its first 8 bytes, or a torn V2 file header) is refused by Recover instead of being
   truncated to the empty valid prefix *)
Theorem recover_short_file_refused crc H p base (b : bytes) idx :
  0 < zlen b < 8 -> recover_bytes crc H p base b idx = Err ELogCorrupted.
Proof.
  intros Hb. unfold recover_bytes, log_version. destruct (zlen b =? 0) eqn:E0; [lia|]. destruct (zlen b <? 8) eqn:E8; [reflexivity|lia].
Qed.

(* the records kept after a cut include every record that lay entirely below it: if the first part ms0 of
   the log ends at or before the cut, ms0 is a prefix of what is kept *)
Lemma prefix_by_size v : forall ms0 ms1 ms2 ms0' n,
  ms1 ++ ms2 = ms0 ++ ms0' -> recs_size v ms0 <= n ->
  (forall m r, ms2 = m :: r -> n < recs_size v ms1 + rec_size v m) ->
  exists x, ms1 = ms0 ++ x.
Proof.
  induction ms0 as [|a ms0 IH]; intros ms1 ms2 ms0' n E Hle Hnext; [exists ms1; reflexivity|].
  cbn [recs_size] in Hle. pose proof (recs_size_nonneg_codec v ms0). pose proof (rec_size_pos_28 v a).
  destruct ms1 as [|b ms1].
  - cbn [app] in E. specialize (Hnext a (ms0 ++ ms0') E). cbn [recs_size] in Hnext. lia.
  - cbn [app] in E. injection E as -> E.
    destruct (IH ms1 ms2 ms0' (n - rec_size v a) E ltac:(lia)) as (x & ->).
    + intros m r Em. specialize (Hnext m r Em). cbn [recs_size] in Hnext. lia.
    + exists x. reflexivity.
Qed.

Theorem recover_cut_keeps_synced crc H p base v ms n idx ms0 ms0' :
  crc_range crc -> Forall msg_ok ms -> hdr_size v <= n <= log_size v ms ->
  log_version (firstn (Z.to_nat n) (enc_log crc v ms)) base = Ok v ->
  ms = ms0 ++ ms0' -> log_size v ms0 <= n ->
  exists kept lost idx', ms = kept ++ lost /\ (exists x, kept = ms0 ++ x) /\
    recover_bytes crc H p base (firstn (Z.to_nat n) (enc_log crc v ms)) idx = Ok (enc_log crc v kept, idx').
Proof.
  intros Hcrc Hall Hn Hv Hms Hsync.
  destruct (recover_cut crc H Hcrc p base v ms n idx Hall Hn Hv) as (ms1 & ms2 & idx' & Hsplit & Hr & Hle & Hnext).
  exists ms1, ms2, idx'. split; [exact Hsplit|]. split; [|exact Hr].
  unfold log_size in *. apply (prefix_by_size v ms0 ms1 ms2 ms0' (n - hdr_size v)); [congruence|lia|].
  intros m r E. specialize (Hnext m r E). lia.
Qed.
