(* DurableDeleteChain.v — C06: Delete as a link of the chain of Durable.v.  "Every file but the two of the writing segment
   is entirely on stable storage" (sealed_durable), which Publish, Sync and Close maintain, is maintained by the
   complete program of a Delete as well - for the writing segment the log has after the call: the one the Delete created
   at NextOffset when it removed the newest message, otherwise the old one (and then, when the Delete was in the writing
   segment, every file is durable, also the rebased rewrite that takes over as writing segment). *)
From KV Require Import Base Model ListAux LogInv CrashDir Durable DurableProofs DurableDelete DurableDeleteProofs.
From Coq Require Import ZifyBool ZifyNat.

(* the segment files a Delete creates: those of a new, empty writing segment *)
Definition created (st : lstate) (offs : list Z) : list fname :=
  flat_map (fun o => match o with CreateLog b _ => [FLog b] | CreateIdx b => [FIdx b] | _ => [] end) (delete_prog st offs).

(* the base of the writing segment whose files may be not yet durable after the call *)
Definition head_after (st : lstate) (offs : list Z) : Z :=
  match created st offs with [] => head_base st | _ :: _ => next_of st end.

Lemma created_at_next st offs f : In f (created st offs) -> f = FLog (next_of st) \/ f = FIdx (next_of st).
Proof.
  unfold created. intros Hin. apply in_flat_map in Hin. destruct Hin as (o & Ho & Hf).
  destruct (swap_creates st offs) as [HL HI]. destruct o; cbn [In] in Hf; try contradiction; destruct Hf as [<-|[]].
  - left. f_equal. eapply HL; eauto.
  - right. f_equal. now apply HI.
Qed.

Lemma swap_stepB_created st offs v : Forall (stepB (created st offs)) (flat_map (tr v) (delete_prog st offs)).
Proof.
  apply tr_stepB; intros; unfold created; apply in_flat_map; eexists; (split; [eassumption|]); cbn [In]; auto.
Qed.

Lemma stepB_mono E E' o : incl E E' -> stepB E o -> stepB E' o.
Proof. intros Hi. destruct o as [[f n|f n|f]|a b|f]; cbn [stepB]; auto. intros [H1 H2]. split; auto. Qed.

Lemma x_run_XD t l : x_run t (map XD l) = d_run t l.
Proof. revert t. induction l as [|o l IH]; intros t; [reflexivity|]. cbn [map x_run d_run fold_left x_exec]. apply IH. Qed.

Lemma head_base_last st src : last_opt (segs st) = Some src -> head_base st = sbase src.
Proof. unfold head_base. now intros ->. Qed.

Definition cr (o : fsop) : list fname := match o with CreateLog b _ => [FLog b] | CreateIdx b => [FIdx b] | _ => [] end.

Lemma stepB_self v prog : Forall (stepB (flat_map cr prog)) (flat_map (tr v) prog).
Proof. apply tr_stepB; intros; apply in_flat_map; eexists; (split; [eassumption|]); cbn [cr In]; auto. Qed.

(* the Delete is in the writing segment (decided as Model.log_delete decides) *)
Definition head_target (st : lstate) (offs : list Z) : bool :=
  match opened st with
  | None => false
  | Some c =>
    if cro c then false
    else match offs with
    | [] => false
    | _ =>
      if zmin_list offs <? 0 then false
      else match seg_get (bases (segs st)) (zmin_list offs) with
      | Err _ => false
      | Ok i => match znth (segs st) i with None => false | Some _ => is_last st i end
      end
    end
  end.

(* the shape of the program: writer.Sync first when the target is the writing segment; then steps that touch only
   temporary files or fsync (ending with the temporary files durable); then the swap, which creates nothing but the
   files listed in [created] - and nothing at all when the target is a sealed segment *)
Lemma delete_full_shape2 st offs :
  (delete_full st offs = [] /\ created st offs = []) \/
  exists (hd : bool) pa pb,
    delete_full st offs = (if hd then map XD (sync_ops (head_base st)) else []) ++ pa ++ pb /\
    Forall stepA pa /\ (forall t, Jt (x_run t pa)) /\ Forall (stepB (created st offs)) pb /\
    (hd = false -> created st offs = []) /\ hd = head_target st offs.
Proof.
  unfold created. fold cr. unfold delete_full, delete_prog, head_target.
  destruct (opened st) as [c|]; [|now left]. destruct (cro c); [now left|].
  destruct offs as [|o offs]; [now left|]. set (offs' := o :: offs). destruct (zmin_list offs' <? 0); [now left|].
  destruct (seg_get (bases (segs st)) (zmin_list offs')) as [i|]; [|now left].
  destruct (znth (segs st) i) as [src|] eqn:Hz; [|now left]. right.
  set (del := filter (fun m => zmem (moff m) offs') (srecs src)).
  set (sv := filter (fun m => negb (zmem (moff m) offs')) (srecs src)).
  set (rw := rewrite_ops _ _ sv).
  set (PROG := match del with [] => [RemoveTmp] | _ :: _ => _ end).
  exists (is_last st i).
  assert (Hsync : (if is_last st i then map XD (sync_ops (sbase src)) else []) =
                  (if is_last st i then map XD (sync_ops (head_base st)) else [])).
  { destruct (is_last st i) eqn:Hl; [|reflexivity]. now rewrite (head_base_last st src (is_last_last st i src Hl Hz)). }
  set (sync := if is_last st i then map XD (sync_ops (sbase src)) else []) in *.
  set (sync2 := match del with [] => [] | _ :: _ => sync end).
  exists (rw ++ sync2), (flat_map (tr (cnewver c)) PROG).
  assert (Hs : Forall stepA sync) by (unfold sync; destruct (is_last st i); [apply sync_stepA|constructor]).
  assert (Hs2 : Forall stepA sync2) by (unfold sync2; destruct del; [constructor|exact Hs]).
  split; [rewrite <- Hsync; now rewrite <- !app_assoc|]. split; [|split; [|split; [|split; [|reflexivity]]]].
  - apply Forall_app. split; [apply rewrite_ops_stepA|exact Hs2].
  - intros t. rewrite x_run_app. pose proof (rewrite_ops_Jt (if ckeeprw c then sver src else cnewver c) (cparams c) sv t) as [H1 H2].
    fold rw in H1, H2.
    assert (Hall : forall o1, In o1 sync2 -> exists f, o1 = XD (DFsync f)).
    { unfold sync2, sync. destruct del; [intros ? []|]. destruct (is_last st i); [|intros ? []].
      unfold sync_ops. cbn [map In]. intros o1 [<-|[<-|[]]]; eexists; reflexivity. }
    assert (Hf : forall g l tt, (forall o1, In o1 l -> exists f, o1 = XD (DFsync f)) -> dur_named g tt -> dur_named g (x_run tt l)).
    { intros g l. induction l as [|x l IH]; intros tt Hal Hd; [exact Hd|]. cbn [x_run fold_left].
      apply IH; [intros; apply Hal; now right|]. destruct (Hal x (or_introl eq_refl)) as (f & ->). cbn [x_exec]. now apply fsync_named. }
    split; apply Hf; auto.
  - apply stepB_self.
  - intros Hl. unfold PROG. rewrite Hl. destruct del as [|d ds]; [reflexivity|]. destruct sv as [|m0 svs]; [reflexivity|].
    unfold prog_override, prog_rebase. destruct (moff m0 =? sbase src); reflexivity.
Qed.

(* ---------- the theorem *)

Lemma sealed_Jl_hb hb t : sealed_durable hb t -> Jl [FLog hb; FIdx hb] t.
Proof. intros HS x Hx Hl Hn. apply HS; [exact Hx| |]; intro E; apply Hn; rewrite E; cbn [In]; auto. Qed.

Lemma all_Jl t : all_durable t -> Jl [] t.
Proof. intros Ha x Hx _ _. now apply Ha. Qed.

Theorem delete_keeps_sealed st offs t :
  sealed_durable (head_base st) t -> sealed_durable (head_after st offs) (x_run t (delete_full st offs)).
Proof.
  intros HS. unfold head_after.
  destruct (delete_full_shape2 st offs) as [[-> ->]|(hd & pa & pb & -> & HA & HT & HB & Hnone & _)]; [exact HS|].
  rewrite !x_run_app.
  assert (Hfin : forall E t0, incl (created st offs) E -> Jl E t0 ->
                 Jl E (x_run (x_run t0 pa) pb) /\ Jt (x_run (x_run t0 pa) pb)).
  { intros E t0 Hi HJ. apply (runB_J E); [|split; [now apply runA_Jl|apply HT]].
    eapply Forall_impl; [|exact HB]. intros o. now apply stepB_mono. }
  destruct hd.
  - (* the writing segment: after writer.Sync every file is durable *)
    rewrite x_run_XD. pose proof (sync_all_durable (head_base st) t HS) as Hall.
    destruct (Hfin (created st offs) _ (incl_refl _) (Jl_mono [] _ _ (incl_nil_l _) (all_Jl _ Hall))) as [HJ [H1 H2]].
    set (t' := x_run _ pb) in *. intros x Hx N1 N2.
    destruct (fnm x) as [b|b| |] eqn:En.
    + apply HJ; [exact Hx|rewrite En; reflexivity|]. rewrite En. intro Hin.
      destruct (created st offs) as [|f0 fs] eqn:Ec; [contradiction|].
      destruct (created_at_next st offs (FLog b)) as [E|E]; [rewrite Ec; exact Hin| |discriminate]. congruence.
    + apply HJ; [exact Hx|rewrite En; reflexivity|]. rewrite En. intro Hin.
      destruct (created st offs) as [|f0 fs] eqn:Ec; [contradiction|].
      destruct (created_at_next st offs (FIdx b)) as [E|E]; [rewrite Ec; exact Hin|discriminate|]. congruence.
    + now apply H1.
    + now apply H2.
  - (* a sealed segment: nothing is created, the writing segment's files stay as they were *)
    rewrite (Hnone eq_refl) in *. cbn [app x_run fold_left].
    destruct (Hfin [FLog (head_base st); FIdx (head_base st)] t (incl_nil_l _) (sealed_Jl_hb _ _ HS)) as [HJ [H1 H2]].
    set (t' := x_run _ pb) in *. intros x Hx N1 N2.
    destruct (fnm x) as [b|b| |] eqn:En.
    + apply HJ; [exact Hx|rewrite En; reflexivity|]. rewrite En. cbn [In]. intros [E|[E|[]]]; congruence.
    + apply HJ; [exact Hx|rewrite En; reflexivity|]. rewrite En. cbn [In]. intros [E|[E|[]]]; congruence.
    + now apply H1.
    + now apply H2.
Qed.


(* a Delete in the writing segment that creates no new one (the newest message survives) leaves every file durable -
   the rewrite too, whether it kept the segment's name or took a new one *)
Theorem head_delete_all_durable st offs t :
  sealed_durable (head_base st) t -> head_target st offs = true -> created st offs = [] ->
  all_durable (x_run t (delete_full st offs)).
Proof.
  intros HS Hh Hc. destruct (delete_full_shape2 st offs) as [[E _]|(hd & pa & pb & E & HA & HT & HB & Hnone & Hhd)].
  - (* no program: not a Delete in the writing segment *)
    exfalso. revert E Hh. unfold delete_full, head_target.
    destruct (opened st) as [c|]; [|discriminate]. destruct (cro c); [discriminate|]. destruct offs as [|o offs]; [discriminate|].
    destruct (zmin_list (o :: offs) <? 0); [discriminate|]. destruct (seg_get _ _) as [i|]; [|discriminate].
    destruct (znth (segs st) i) as [src|]; [|discriminate]. intros E Hl. rewrite Hl in E. discriminate.
  - rewrite Hh in Hhd. subst hd. rewrite E, !x_run_app, x_run_XD. pose proof (sync_all_durable (head_base st) t HS) as Hall.
    rewrite Hc in HB.
    destruct (runB_J [] pb (x_run (d_run t (sync_ops (head_base st))) pa) HB) as [HJ [H1 H2]];
      [split; [apply runA_Jl; [exact HA|now apply all_Jl]|apply HT]|].
    intros x Hx. destruct (fnm x) as [b|b| |] eqn:En.
    + apply HJ; [exact Hx|rewrite En; reflexivity|intros []].
    + apply HJ; [exact Hx|rewrite En; reflexivity|intros []].
    + now apply H1.
    + now apply H2.
Qed.

(* ---------- Delete as a step of the handle: the writing segment after the call *)

Lemma last_opt_cons_ne {A} (a : A) x : x <> [] -> last_opt (a :: x) = last_opt x.
Proof. destruct x as [|b x]; [contradiction|]. intros _. apply last_opt_cons_cons. Qed.

Lemma last_opt_replace_nth {A} : forall (l : list A) n x, (S n < length l)%nat -> last_opt (replace_nth n l x) = last_opt l.
Proof.
  induction l as [|a l IH]; intros n x Hn; [cbn in Hn; lia|]. cbn [length] in Hn. destruct n as [|n].
  - cbn [replace_nth]. rewrite !last_opt_cons_ne; [reflexivity| |]; intro E; subst l; cbn in Hn; lia.
  - cbn [replace_nth]. rewrite !last_opt_cons_ne.
    + apply IH. lia.
    + intro E; subst l; cbn in Hn; lia.
    + intro E. apply (f_equal (@length A)) in E. rewrite replace_nth_length in E. cbn [length] in E. lia.
Qed.

Lemma last_opt_drop_nth {A} : forall (l : list A) n, (S n < length l)%nat -> last_opt (firstn n l ++ skipn (S n) l) = last_opt l.
Proof.
  induction l as [|a l IH]; intros n Hn; [cbn in Hn; lia|]. cbn [length] in Hn. destruct n as [|n].
  - cbn [firstn skipn app]. rewrite last_opt_cons_ne; [reflexivity|]. intro E; subst l; cbn in Hn; lia.
  - change (firstn (S n) (a :: l) ++ skipn (S (S n)) (a :: l)) with (a :: (firstn n l ++ skipn (S n) l)).
    rewrite !last_opt_cons_ne.
    + apply IH. lia.
    + intro E; subst l; cbn in Hn; lia.
    + intro E. apply (f_equal (@length A)) in E. rewrite app_length, firstn_length, skipn_length in E. cbn [length] in E. lia.
Qed.

Lemma last_opt_drop_nth' {A} (l : list A) n :
  (S n < length l)%nat -> last_opt (firstn n l ++ match l with [] => [] | _ :: l' => skipn n l' end) = last_opt l.
Proof. exact (last_opt_drop_nth l n). Qed.

Lemma last_opt_app_two {A} (f : list A) (a b : A) : last_opt (f ++ [a; b]) = Some b.
Proof. replace (f ++ [a; b]) with ((f ++ [a]) ++ [b]) by (now rewrite <- app_assoc). apply last_opt_app. Qed.

Lemma znth_lt {A} (l : list A) i x : znth l i = Some x -> 0 <= i /\ (Z.to_nat i < length l)%nat.
Proof.
  unfold znth. destruct (i <? 0) eqn:E; [discriminate|]. intros Hn. split; [lia|]. apply nth_error_Some. congruence.
Qed.

Section Step.
Variable H : bytes -> Z.

Lemma delete_head_after st offs st' r :
  log_delete H st offs = Ok (st', r) ->
  head_base st' = head_after st offs \/ (head_target st offs = true /\ created st offs = []).
Proof.
  unfold log_delete, get_cfg, head_after, head_target, created. fold cr. unfold delete_prog.
  destruct (opened st) as [c|] eqn:Ho; [|discriminate]. cbn [bind]. destruct (cro c); [discriminate|].
  destruct offs as [|o offs]; [intros E; injection E as <- _; now left|]. set (offs' := o :: offs).
  destruct (zmin_list offs' <? 0); [discriminate|].
  destruct (seg_get (bases (segs st)) (zmin_list offs')) as [i|]; [|discriminate]. cbn [bind].
  destruct (znth (segs st) i) as [src|] eqn:Hz; [|discriminate].
  destruct (open_log_reader src) as [srcv|]; [|discriminate]. cbn [bind].
  set (del := filter (fun m => zmem (moff m) offs') (srecs src)).
  set (sv := filter (fun m => negb (zmem (moff m) offs')) (srecs src)).
  destruct del as [|d ds] eqn:Ed; [intros E; injection E as <- _; now left|].
  destruct (znth_lt _ _ _ Hz) as [Hi0 Hilt].
  destruct (is_last st i) eqn:Hl.
  - (* the writing segment *)
    assert (Hn : idx_next src (head_items src) = next_of st) by (unfold next_of; now rewrite (is_last_last st i src Hl Hz)).
    rewrite Hn. destruct sv as [|m0 svs] eqn:Es.
    + intros E. injection E as <- _. left. unfold head_base. cbn [segs]. now rewrite last_opt_app.
    + assert (Hlast : last_opt (d :: ds) = Some (last ds d)) by reflexivity. rewrite Hlast.
      destruct (moff (last ds d) =? next_of st - 1) eqn:Et.
      * intros E. injection E as <- _. left. unfold head_base. cbn [segs].
        rewrite last_opt_app_two. unfold create_head. destruct (moff m0 =? sbase src); reflexivity.
      * intros _. right. split; [reflexivity|]. cbn [app]. unfold prog_override, prog_rebase. destruct (moff m0 =? sbase src); reflexivity.
  - (* a sealed segment: the writing segment stays *)
    assert (Hlt : (S (Z.to_nat i) < length (segs st))%nat).
    { unfold is_last, zlen in Hl. lia. }
    destruct sv as [|m0 svs] eqn:Es.
    + intros E. injection E as <- _. left. unfold prog_drop. cbn [flat_map cr app].
      unfold head_base at 1. unfold set_segs. cbn [segs]. rewrite last_opt_drop_nth' by exact Hlt. reflexivity.
    + intros E. injection E as <- _. left.
      assert (Hcr : flat_map cr (if moff m0 =? sbase src then prog_override (sbase src) else prog_rebase (sbase src) (moff m0)) = [])
        by (unfold prog_override, prog_rebase; destruct (moff m0 =? sbase src); reflexivity).
      rewrite Hcr. unfold head_base at 1. unfold set_segs. cbn [segs]. rewrite last_opt_replace_nth by exact Hlt. reflexivity.
Qed.

(* sealed_durable, the invariant of Publish / Sync / Close (C06_sealed_segments_stay_durable), is an invariant of Delete
   too: for the state the model's Delete returns *)
Theorem delete_step_sealed st offs st' r t :
  log_delete H st offs = Ok (st', r) ->
  sealed_durable (head_base st) t -> sealed_durable (head_base st') (x_run t (delete_full st offs)).
Proof.
  intros Hd HS. destruct (delete_head_after st offs st' r Hd) as [->|[Hh Hc]].
  - now apply delete_keeps_sealed.
  - apply all_sealed. now apply head_delete_all_durable.
Qed.

End Step.
