(* FlockProofs.v — C19 lock table: exclusion invariant over any sequence of operations. *)
From KV Require Import Base Flock.
From Coq Require Import ZifyBool ZifyNat.

Lemma find_handle_none_notin t h : find_handle t h = None -> ~ In h (map fst (handles t)).
Proof.
  unfold find_handle. destruct (find (fun x => Nat.eqb (fst x) h) (handles t)) as [[a m]|] eqn:E; [discriminate|].
  intros _ Hin. apply in_map_iff in Hin. destruct Hin as (x & Hx & Hin).
  pose proof (find_none _ _ E x Hin) as Hn. cbn in Hn. rewrite Hx, Nat.eqb_refl in Hn. discriminate.
Qed.

Lemma filter_notin (l : list (nat * hmode)) h :
  ~ In h (map fst l) -> filter (fun x => negb (Nat.eqb (fst x) h)) l = l.
Proof.
  induction l as [|[b bm] l IH]; intros Hn; [reflexivity|]. cbn [filter fst].
  destruct (Nat.eqb b h) eqn:Eb.
  - exfalso. apply Nat.eqb_eq in Eb. subst. apply Hn. left. reflexivity.
  - cbn [negb]. f_equal. apply IH. intro Hin. apply Hn. right. exact Hin.
Qed.

Lemma count_mode_remove m l h hm :
  NoDup (map fst l) -> find (fun x => Nat.eqb (fst x) h) l = Some (h, hm) ->
  count_mode m l =
  (count_mode m (filter (fun x => negb (Nat.eqb (fst x) h)) l)
   + (match hm, m with HRW, HRW => 1 | HRO, HRO => 1 | _, _ => 0 end))%nat.
Proof.
  induction l as [|[a am] l IH]; intros Hnd Hf; [discriminate|].
  cbn [map] in Hnd. inversion Hnd as [|? ? Hnotin Hnd']; subst.
  cbn [find fst] in Hf. cbn [filter fst].
  destruct (Nat.eqb a h) eqn:E.
  - injection Hf as Ha Hm. subst a am. cbn [negb].
    rewrite (filter_notin l h Hnotin). unfold count_mode. cbn [filter snd]. destruct hm, m; cbn [length]; lia.
  - cbn [negb]. specialize (IH Hnd' Hf). unfold count_mode in *. cbn [filter snd].
    destruct am, m; cbn [length]; lia.
Qed.

Lemma remove_nodup l h : NoDup (map fst l) -> NoDup (map fst (filter (fun x : nat * hmode => negb (Nat.eqb (fst x) h)) l)).
Proof.
  induction l as [|[a am] l IH]; intros Hnd; [constructor|].
  cbn [map] in Hnd. inversion Hnd as [|? ? Hnotin Hnd']; subst. cbn [filter fst].
  destruct (Nat.eqb a h); cbn [negb]; [now apply IH|].
  cbn [map fst]. constructor; [|now apply IH].
  intro Hin. apply Hnotin. apply in_map_iff in Hin. destruct Hin as (x & Hx & Hin).
  apply filter_In in Hin. apply in_map_iff. exists x. tauto.
Qed.

Lemma find_handle_some t h m : find_handle t h = Some m ->
  find (fun x => Nat.eqb (fst x) h) (handles t) = Some (h, m).
Proof.
  unfold find_handle. destruct (find (fun x => Nat.eqb (fst x) h) (handles t)) as [[a am]|] eqn:E; [|discriminate].
  intros Hm. injection Hm as ->. apply find_some in E. destruct E as [_ E]. cbn in E. apply Nat.eqb_eq in E. now subst.
Qed.

Theorem fstep_inv t o : finv t -> finv (fst (fstep t o)).
Proof.
  intros Hinv. pose proof Hinv as (Hro & Hrw & Hex & Hnd).
  destruct o as [h ro check|h|h|h|b|b|b]; cbn [fstep].
  - destruct (find_handle t h) eqn:Ef; [exact Hinv|].
    destruct (negb (dir_ok t)); [exact Hinv|].
    destruct ro.
    + destruct (excl t) eqn:Ee; [exact Hinv|].
      destruct (log_bad t && check); [exact Hinv|]. destruct (idx_bad t && check); [exact Hinv|].
      cbn [fst]. unfold finv. cbn [handles shared excl]. rewrite ?Ee in *.
      unfold count_mode in *. cbn [filter snd length]. repeat split; try lia; try discriminate.
      cbn [map fst]. constructor; [now apply find_handle_none_notin|assumption].
    + destruct (excl t || negb (Nat.eqb (shared t) 0)) eqn:Ee; [exact Hinv|].
      destruct (log_bad t && check); [exact Hinv|]. destruct (idx_bad t); [exact Hinv|].
      cbn [fst]. unfold finv. cbn [handles shared excl].
      assert (He0 : excl t = false) by (destruct (excl t); [discriminate|reflexivity]).
      assert (Hs0 : shared t = O) by (destruct (shared t); [reflexivity|rewrite He0 in Ee; discriminate]).
      rewrite ?He0 in *. unfold count_mode in *. cbn [filter snd length]. repeat split; try lia.
      cbn [map fst]. constructor; [now apply find_handle_none_notin|assumption].
  - destruct (find_handle t h) as [m|] eqn:Ef; [|exact Hinv].
    pose proof (find_handle_some t h m Ef) as Hf.
    pose proof (count_mode_remove HRO _ h m Hnd Hf) as Hc1.
    pose proof (count_mode_remove HRW _ h m Hnd Hf) as Hc2.
    destruct m; cbn [fst]; unfold finv; cbn [handles shared excl]; unfold remove_handle.
    + destruct (excl t) eqn:Ee.
      * specialize (Hex eq_refl). repeat split; try lia; try discriminate. now apply remove_nodup.
      * exfalso. lia.
    + repeat split; try lia; try (now apply remove_nodup); try (intros He; specialize (Hex He); lia).
  - destruct (find_handle t h) as [[]|]; exact Hinv.
  - destruct (find_handle t h) as [[]|]; exact Hinv.
  - exact Hinv.
  - exact Hinv.
  - exact Hinv.
Qed.

Lemma finv0 : finv ftab0.
Proof. repeat split; try reflexivity; try discriminate. constructor. Qed.

Theorem frun_inv ops : finv (fst (frun ops)).
Proof.
  unfold frun.
  assert (Hgen : forall t rs, finv t ->
            finv (fst (fold_left (fun acc o => let '(t, rs) := acc in let '(t', r) := fstep t o in (t', rs ++ [r])) ops (t, rs)))).
  { induction ops as [|o ops IH]; intros t rs Ht; [exact Ht|].
    cbn [fold_left]. destruct (fstep t o) as [t' r] eqn:E. apply IH.
    replace t' with (fst (fstep t o)) by now rewrite E. now apply fstep_inv. }
  apply Hgen. apply finv0.
Qed.

(* consequences, in every reachable table *)
Theorem exclusive_means_alone ops :
  let t := fst (frun ops) in
  excl t = true -> shared t = O /\ count_mode HRW (handles t) = 1%nat /\ count_mode HRO (handles t) = O.
Proof.
  cbn zeta. intros He. destruct (frun_inv ops) as (Hro & Hrw & Hex & _).
  rewrite He in Hrw. specialize (Hex He). rewrite Hex in Hro. repeat split; assumption.
Qed.

(* a read-write Open succeeds only when nothing is open; a read-only Open only when no writer is open *)
Theorem open_rw_needs_free t h check t' :
  find_handle t h = None -> fstep t (FOpen h false check) = (t', FOk) -> excl t = false /\ shared t = O.
Proof.
  intros Hf. cbn [fstep]. rewrite Hf. destruct (negb (dir_ok t)); [discriminate|].
  destruct (excl t || negb (Nat.eqb (shared t) 0)) eqn:E; [discriminate|].
  intros _. destruct (excl t); [discriminate|]. destruct (shared t); [tauto|discriminate].
Qed.

Theorem open_ro_needs_no_writer t h check t' :
  find_handle t h = None -> fstep t (FOpen h true check) = (t', FOk) -> excl t = false.
Proof.
  intros Hf. cbn [fstep]. rewrite Hf. destruct (negb (dir_ok t)); [discriminate|].
  destruct (excl t); [discriminate|reflexivity].
Qed.

(* a failed Open leaves the lock table as it was; a read-only handle rejects Publish and Delete *)
Theorem failed_open_releases t h ro check c : fstep t (FOpen h ro check) = (fst (fstep t (FOpen h ro check)), FErr c) ->
  fst (fstep t (FOpen h ro check)) = t.
Proof.
  cbn [fstep]. destruct (find_handle t h); [discriminate|].
  destruct (negb (dir_ok t)); [reflexivity|]. destruct ro.
  - destruct (excl t); [reflexivity|]. destruct (log_bad t && check); [reflexivity|]. destruct (idx_bad t && check); [reflexivity|discriminate].
  - destruct (excl t || negb (Nat.eqb (shared t) 0)); [reflexivity|]. destruct (log_bad t && check); [reflexivity|]. destruct (idx_bad t); [reflexivity|discriminate].
Qed.

Theorem readonly_rejects t h :
  find_handle t h = Some HRO ->
  fstep t (FPublish h) = (t, FErr CReadonly) /\ fstep t (FDelete h) = (t, FErr CReadonly).
Proof. intros Hf. cbn [fstep]. rewrite Hf. split; reflexivity. Qed.
