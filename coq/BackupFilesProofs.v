(* BackupFilesProofs.v — C20, copy mechanics: as long as every file of the target that carries a name of the source is a
   PREFIX of that source file - true of an empty target, of the result of an earlier Backup of a source that has since
   only been appended to, and of whatever a killed Backup leaves - a Backup makes every source file appear in the target
   with exactly the source's content and time, whatever the modification times in the target are; the size-and-mtime
   skip rule never keeps a file that differs.  In particular a Backup that follows a killed Backup finishes the job. *)
From KV Require Import Base Durable DurableProofs BackupFiles.
From Coq Require Import ZifyBool ZifyNat.

Definition is_prefix (a b : bytes) : Prop := exists t, b = a ++ t.

Lemma prefix_refl a : is_prefix a a.
Proof. exists []. now rewrite app_nil_r. Qed.

Lemma prefix_trans a b c : is_prefix a b -> is_prefix b c -> is_prefix a c.
Proof. intros [t ->] [u ->]. exists (t ++ u). now rewrite app_assoc. Qed.

Lemma prefix_firstn k (a : bytes) : is_prefix (firstn k a) a.
Proof. exists (skipn k a). symmetry. apply firstn_skipn. Qed.

Lemma prefix_same_length a b : is_prefix a b -> length a = length b -> a = b.
Proof.
  intros [t ->] Hl. rewrite app_length in Hl. assert (length t = O) by lia. destruct t; [now rewrite app_nil_r|discriminate].
Qed.

(* every target file under a source name is a prefix of the source file *)
Definition fcovered (tgt src : bdir) : Prop :=
  forall n s d, blookup src n = Some s -> blookup tgt n = Some d -> is_prefix (bdata d) (bdata s).

(* the source has only been appended to *)
Definition appended (src src' : bdir) : Prop :=
  forall n s, blookup src n = Some s -> exists s', blookup src' n = Some s' /\ is_prefix (bdata s) (bdata s').

(* ---------- lookups *)

Lemma blookup_bset_same d n f : blookup (bset d n f) n = Some f.
Proof.
  induction d as [|[m g] r IH]; cbn [bset blookup]; [now rewrite fname_eqb_refl|].
  destruct (fname_eqb m n) eqn:E; cbn [blookup]; rewrite E; [reflexivity|exact IH].
Qed.

Lemma blookup_bset_other d n f m : m <> n -> blookup (bset d n f) m = blookup d m.
Proof.
  intros Hne. induction d as [|[x g] r IH]; cbn [bset blookup].
  - destruct (fname_eqb n m) eqn:E; [apply fname_eqb_eq in E; congruence|reflexivity].
  - destruct (fname_eqb x n) eqn:E; cbn [blookup].
    + apply fname_eqb_eq in E. subst x. destruct (fname_eqb n m) eqn:E2; [apply fname_eqb_eq in E2; congruence|reflexivity].
    + destruct (fname_eqb x m); [reflexivity|exact IH].
Qed.

Lemma blookup_none d n : ~ In n (map fst d) -> blookup d n = None.
Proof.
  induction d as [|[m g] r IH]; intros Hn; [reflexivity|]. cbn [blookup]. cbn [map fst In] in Hn.
  destruct (fname_eqb m n) eqn:E; [apply fname_eqb_eq in E; tauto|]. apply IH. tauto.
Qed.

Lemma blookup_in d n f : blookup d n = Some f -> In n (map fst d).
Proof.
  induction d as [|[m g] r IH]; cbn [blookup]; [discriminate|]. destruct (fname_eqb m n) eqn:E.
  - apply fname_eqb_eq in E. intros _. now left.
  - intros H. right. now apply IH.
Qed.

Lemma blookup_app a b n : blookup (a ++ b) n = match blookup a n with Some f => Some f | None => blookup b n end.
Proof. induction a as [|[m g] r IH]; cbn [app blookup]; [reflexivity|]. destruct (fname_eqb m n); [reflexivity|exact IH]. Qed.

(* ---------- one file *)

Lemma copy_of_prefix s d : is_prefix (bdata d) (bdata s) -> copy_file s (Some d) = s.
Proof.
  intros Hp. unfold copy_file, skip_copy. destruct s as [sd sm], d as [dd dm]. cbn [bdata bmtime] in *.
  destruct ((Z.of_nat (length sd) =? Z.of_nat (length dd)) && (sm =? dm)) eqn:E; [|reflexivity].
  apply andb_prop in E. destruct E as [E1 E2]. f_equal; [|lia]. apply prefix_same_length; [exact Hp|lia].
Qed.

Lemma copy_of_none s : copy_file s None = s.
Proof. now destruct s. Qed.

Lemma copy_covered s d : match d with Some d => is_prefix (bdata d) (bdata s) | None => True end -> copy_file s d = s.
Proof. destruct d as [d|]; [apply copy_of_prefix|intros _; apply copy_of_none]. Qed.

(* ---------- a whole Backup *)

Lemma backup_other : forall src tgt n, ~ In n (map fst src) -> blookup (backup_files src tgt) n = blookup tgt n.
Proof.
  induction src as [|[m s] r IH]; intros tgt n Hn; [reflexivity|]. cbn [backup_files fold_left fst snd].
  cbn [map fst In] in Hn. fold (backup_files r (bset tgt m (copy_file s (blookup tgt m)))).
  rewrite IH by tauto. apply blookup_bset_other. intro; subst; tauto.
Qed.

Theorem backup_gives_source : forall src tgt,
  NoDup (map fst src) -> fcovered tgt src ->
  forall n s, blookup src n = Some s -> blookup (backup_files src tgt) n = Some s.
Proof.
  induction src as [|[m s0] r IH]; intros tgt Hnd Hc n s Hl; [discriminate|].
  cbn [map fst] in Hnd. inversion Hnd as [|? ? Hm Hr]; subst.
  cbn [backup_files fold_left fst snd]. fold (backup_files r (bset tgt m (copy_file s0 (blookup tgt m)))).
  assert (Hcopy : copy_file s0 (blookup tgt m) = s0).
  { apply copy_covered. destruct (blookup tgt m) as [d|] eqn:Ed; [|exact I].
    apply (Hc m s0 d); [cbn [blookup]; now rewrite fname_eqb_refl|exact Ed]. }
  rewrite Hcopy. cbn [blookup] in Hl. destruct (fname_eqb m n) eqn:E.
  - apply fname_eqb_eq in E. subst m. injection Hl as <-. rewrite backup_other by exact Hm. apply blookup_bset_same.
  - apply IH; [exact Hr| |exact Hl].
    intros n1 s1 d1 H1 H2. assert (Hne : n1 <> m) by (intro; subst n1; apply Hm; eapply blookup_in; eauto).
    rewrite blookup_bset_other in H2 by exact Hne. apply (Hc n1 s1 d1); [|exact H2].
    cbn [blookup]. destruct (fname_eqb m n1) eqn:E1; [apply fname_eqb_eq in E1; congruence|exact H1].
Qed.

Lemma nodup_app_l {A} (a b : list A) : NoDup (a ++ b) -> NoDup a.
Proof.
  induction a as [|x a IH]; intros H; [constructor|]. cbn [app] in H. inversion H as [|? ? Hx Hr]; subst.
  constructor; [intro Hin; apply Hx; apply in_or_app; now left|now apply IH].
Qed.

(* ---------- a killed Backup leaves a target that is still fcovered *)

Lemma covered_sub tgt a b : fcovered tgt (a ++ b) -> fcovered tgt a.
Proof. intros Hc n s d H1 H2. apply (Hc n s d); [|exact H2]. rewrite blookup_app, H1. reflexivity. Qed.

Theorem killed_backup_covered src src' tgt now t' :
  NoDup (map fst src) -> fcovered tgt src -> fcovered tgt src' -> appended src src' ->
  killed_backup src tgt now t' -> fcovered t' src'.
Proof.
  intros Hnd Hc Hc' Happ (done & n & s & rest & img & -> & Himg & ->).
  rewrite map_app in Hnd. cbn [map fst] in Hnd.
  assert (Hn_done : ~ In n (map fst done)).
  { intro Hin. apply NoDup_remove_2 in Hnd. apply Hnd. apply in_or_app. now left. }
  assert (Hnd_done : NoDup (map fst done)) by (apply nodup_app_l in Hnd; exact Hnd).
  assert (Hsrc_n : blookup (done ++ (n, s) :: rest) n = Some s).
  { rewrite blookup_app, (blookup_none done n Hn_done). cbn [blookup]. now rewrite fname_eqb_refl. }
  set (B := backup_files done tgt) in *.
  (* what B holds under any name *)
  assert (HB : forall m d s', blookup B m = Some d -> blookup src' m = Some s' -> is_prefix (bdata d) (bdata s')).
  { intros m d s' Hd Hs'. destruct (blookup done m) as [sm|] eqn:Edm.
    - unfold B in Hd. rewrite (backup_gives_source done tgt Hnd_done (covered_sub tgt done _ Hc) m sm Edm) in Hd.
      injection Hd as <-. destruct (Happ m sm) as (s'' & E1 & E2); [rewrite blookup_app, Edm; reflexivity|]. congruence.
    - unfold B in Hd. rewrite backup_other in Hd.
      + apply (Hc' m s' d); assumption.
      + intro Hin. apply in_map_iff in Hin. destruct Hin as ([m' f] & Em & Hin). cbn [fst] in Em. subst m'.
        assert (Hx : In m (map fst done)) by (apply in_map_iff; exists (m, f); split; [reflexivity|exact Hin]).
        clear - Edm Hx. induction done as [|[x g] r IH]; [contradiction|]. cbn [blookup] in Edm. cbn [map fst In] in Hx.
        destruct (fname_eqb x m) eqn:E; [discriminate|]. destruct Hx as [->|Hx]; [rewrite fname_eqb_refl in E; discriminate|auto]. }
  intros m s' d Hs' Hd. destruct img as [f|]; [|now apply (HB m d s')].
  destruct (Durable.fname_eqb m n) eqn:Emn.
  - apply fname_eqb_eq in Emn. subst m. rewrite blookup_bset_same in Hd. injection Hd as <-.
    destruct (Happ n s Hsrc_n) as (s'' & E1 & E2). assert (s'' = s') by congruence. subst s''.
    inversion Himg as [Hu|k Hk|Hdn]; subst.
    + apply (HB n f s'); [first [assumption|symmetry; assumption]|exact Hs'].
    + cbn [bdata]. apply prefix_trans with (bdata s); [apply prefix_firstn|exact E2].
    + unfold copy_file. destruct (blookup B n) as [d0|] eqn:Ed0; [|cbn [bdata]; exact E2].
      destruct (skip_copy s d0); [apply (HB n d0 s' Ed0 Hs')|cbn [bdata]; exact E2].
  - rewrite blookup_bset_other in Hd; [now apply (HB m d s')|].
    intro; subst m. rewrite fname_eqb_refl in Emn. discriminate.
Qed.

(* the Backup that follows a killed Backup, the source having only been appended to in between, yields the source *)
Theorem backup_after_killed_backup src src' tgt now t' :
  NoDup (map fst src) -> NoDup (map fst src') -> fcovered tgt src -> fcovered tgt src' -> appended src src' ->
  killed_backup src tgt now t' ->
  forall n s', blookup src' n = Some s' -> blookup (backup_files src' t') n = Some s'.
Proof.
  intros Hnd Hnd' Hc Hc' Happ Hk. apply backup_gives_source; [exact Hnd'|].
  exact (killed_backup_covered src src' tgt now t' Hnd Hc Hc' Happ Hk).
Qed.

(* special cases of the premise *)
Lemma covered_empty src : fcovered [] src.
Proof. intros n s d _ H. discriminate. Qed.

Lemma covered_after_backup src src' tgt :
  NoDup (map fst src) -> fcovered tgt src -> fcovered tgt src' -> appended src src' -> fcovered (backup_files src tgt) src'.
Proof.
  intros Hnd Hc Hc' Happ n s' d Hs' Hd. destruct (blookup src n) as [s|] eqn:Es.
  - rewrite (backup_gives_source src tgt Hnd Hc n s Es) in Hd. injection Hd as <-.
    destruct (Happ n s Es) as (s'' & E1 & E2). congruence.
  - rewrite backup_other in Hd; [now apply (Hc' n s' d)|]. intro Hin.
    clear - Es Hin. induction src as [|[x g] r IH]; [contradiction|]. cbn [blookup] in Es. cbn [map fst In] in Hin.
    destruct (fname_eqb x n) eqn:E; [discriminate|]. destruct Hin as [->|Hin]; [rewrite fname_eqb_refl in E; discriminate|auto].
Qed.
