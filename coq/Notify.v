(* Notify.v — C18: pkg/notify/notify.go as a small-step transition system.
   Threads are calls of Wait / Set / Close cut at every channel operation and atomic load/store; any number of
   threads, any interleaving.  The capacity-1 channel `barrier` that carries the current broadcast channel
   is the ghost field tok: InChan b (the channel holds b), Held i (thread i took it), Gone (closed). *)
From KV Require Import Base.

Inductive tokst := InChan (b : nat) | Held (i : nat) | Gone.

Inductive pc :=
(* Wait(ctx, off) *)
| W0 (off : Z)                         (* fast path: load nextOffset *)
| W1 (off : Z)                         (* b, ok := <-barrier *)
| W2 (off : Z) (b : nat)               (* probe: load nextOffset *)
| W3 (off : Z) (b : nat) (u : bool)    (* barrier <- b *)
| W4 (off : Z) (b : nat)               (* select { <-b ; <-ctx.Done() } *)
| WOk (off : Z) | WClosed (off : Z) | WCanceled (off : Z)
(* Set(v) *)
| S0 (v : Z) | S1 (v : Z) (b : nat) | S2 (b : nat) | S3 | SDone
(* Close() *)
| C0 | C1 (b : nat) | C2 | CDone | CErr.

Record nstate := mkN {
  nxt : Z;
  tok : tokst;
  closed : list nat;      (* broadcast channels closed so far *)
  fresh : nat;            (* next channel identity *)
  threads : list pc
}.

Definition ninit (next : Z) (ts : list pc) : nstate := mkN next (InChan 0) [] 1 ts.

Fixpoint set_nth {A} (n : nat) (l : list A) (x : A) : list A :=
  match n, l with
  | O, _ :: r => x :: r
  | S n', y :: r => y :: set_nth n' r x
  | _, [] => []
  end.

Definition upd (s : nstate) (i : nat) (p : pc) : nstate :=
  mkN (nxt s) (tok s) (closed s) (fresh s) (set_nth i (threads s) p).

Definition is_closed (s : nstate) (b : nat) : bool := existsb (Nat.eqb b) (closed s).

(* one step of thread i; None = not enabled (blocked or finished) *)
Definition tstep (s : nstate) (i : nat) : option nstate :=
  match nth_error (threads s) i with
  | None => None
  | Some p =>
    match p with
    | W0 off => Some (upd s i (if off <? nxt s then WOk off else W1 off))
    | W1 off =>
      match tok s with
      | InChan b => Some (mkN (nxt s) (Held i) (closed s) (fresh s) (set_nth i (threads s) (W2 off b)))
      | Gone => Some (upd s i (WClosed off))
      | Held _ => None
      end
    | W2 off b => Some (upd s i (W3 off b (off <? nxt s)))
    | W3 off b u =>
      match tok s with
      | Held j => if Nat.eqb j i
                  then Some (mkN (nxt s) (InChan b) (closed s) (fresh s)
                                 (set_nth i (threads s) (if u then WOk off else W4 off b)))
                  else None
      | _ => None
      end
    | W4 off b => if is_closed s b then Some (upd s i (WOk off)) else None
    | S0 v =>
      match tok s with
      | InChan b => Some (mkN (nxt s) (Held i) (closed s) (fresh s) (set_nth i (threads s) (S1 v b)))
      | Gone => Some (upd s i SDone)
      | Held _ => None
      end
    | S1 v b => Some (mkN (if nxt s <? v then v else nxt s) (tok s) (closed s) (fresh s)
                          (set_nth i (threads s) (S2 b)))
    | S2 b => Some (mkN (nxt s) (tok s) (b :: closed s) (fresh s) (set_nth i (threads s) S3))
    | S3 =>
      match tok s with
      | Held j => if Nat.eqb j i
                  then Some (mkN (nxt s) (InChan (fresh s)) (closed s) (S (fresh s)) (set_nth i (threads s) SDone))
                  else None
      | _ => None
      end
    | C0 =>
      match tok s with
      | InChan b => Some (mkN (nxt s) (Held i) (closed s) (fresh s) (set_nth i (threads s) (C1 b)))
      | Gone => Some (upd s i CErr)
      | Held _ => None
      end
    | C1 b => Some (mkN (nxt s) (tok s) (b :: closed s) (fresh s) (set_nth i (threads s) C2))
    | C2 =>
      match tok s with
      | Held j => if Nat.eqb j i
                  then Some (mkN (nxt s) Gone (closed s) (fresh s) (set_nth i (threads s) CDone))
                  else None
      | _ => None
      end
    | WOk _ | WClosed _ | WCanceled _ | SDone | CDone | CErr => None
    end
  end.

(* context cancellation of a parked waiter *)
Definition tcancel (s : nstate) (i : nat) : option nstate :=
  match nth_error (threads s) i with
  | Some (W4 off b) => Some (upd s i (WCanceled off))
  | _ => None
  end.

Inductive nact := Step (i : nat) | Cancel (i : nat).

Definition nstep (s : nstate) (a : nact) : option nstate :=
  match a with Step i => tstep s i | Cancel i => tcancel s i end.

(* a schedule: actions that are not enabled are skipped *)
Fixpoint nrun (s : nstate) (sched : list nact) : nstate :=
  match sched with
  | [] => s
  | a :: r => match nstep s a with Some s' => nrun s' r | None => nrun s r end
  end.

(* reachability *)
Inductive reach (s0 : nstate) : nstate -> Prop :=
| reach_refl : reach s0 s0
| reach_step s a s' : reach s0 s -> nstep s a = Some s' -> reach s0 s'.

(* ---------- a context that ends before the waiter is parked.  Wait looks at ctx only in the final select, so an early
   cancellation is pending until then: x carries the set of waiters whose context is over.  A step of the extended
   system is a step of the base system or leaves it unchanged, so every invariant of the base system carries over.
   (A waiter that reaches the select with its context over AND its channel closed may return either way - Go's select
   picks at random; the schedules the harness generates never contain that case.) *)
Record xstate := mkX { base : nstate; canc : list nat }.

Definition is_canc (x : xstate) (i : nat) : bool := existsb (Nat.eqb i) (canc x).

Definition xstep (x : xstate) (a : nact) : option xstate :=
  match a with
  | Step i =>
    match nth_error (threads (base x)) i with
    | Some (W4 off b) =>
      if is_canc x i && negb (is_closed (base x) b)
      then option_map (fun s => mkX s (canc x)) (tcancel (base x) i)      (* the select sees ctx.Done() *)
      else option_map (fun s => mkX s (canc x)) (tstep (base x) i)
    | _ => option_map (fun s => mkX s (canc x)) (tstep (base x) i)
    end
  | Cancel i =>
    match nth_error (threads (base x)) i with
    | Some (W4 _ _) => option_map (fun s => mkX s (canc x)) (tcancel (base x) i)
    | Some (W0 _) | Some (W1 _) | Some (W2 _ _) | Some (W3 _ _ _) => Some (mkX (base x) (i :: canc x))
    | _ => None
    end
  end.

Fixpoint xrun (x : xstate) (sched : list nact) : xstate :=
  match sched with
  | [] => x
  | a :: r => match xstep x a with Some x' => xrun x' r | None => xrun x r end
  end.
