(* BytesLog.v — L2 read path: the reader functions of log_reader.go / log.go over the BYTES of the
   segment log files, with the index items given (C14: log files damaged, index files intact).
   Transcriptions; executable; no proofs here. *)
From KV Require Import Base Model Codec.

Section BytesLog.
Variable crc : bytes -> Z.
Variable H : bytes -> Z.

(* bmem: read through the mmap reader (every segment but the head of a read-write log) *)
Record bseg := mkBseg { bbase : Z; blog : bytes; bitems : list item; bmem : bool }.

Definition bseg_hdr (s : bseg) : seg := mkSeg (bbase s) V2 [] None.   (* only its base is used *)

(* message.OpenReaderMem + Reader.Get/Read *)
Definition b_read (s : bseg) (pos : Z) : res (msg * Z) :=
  do v <- log_version (blog s) (bbase s);
  (* mmap.ReaderAt.ReadAt rejects an offset beyond the end with its own error; os.File reports io.EOF *)
  if bmem s && (zlen (blog s) <? pos) then Err EOther
  else read_rec crc v (blog s) pos.

(* message.Reader.Consume: EOF before maxPosition means the log is shorter than its index *)
Fixpoint b_messages_loop (fuel : nat) (s : bseg) (pos maxpos : Z) (room : nat) : res (list msg) :=
  match fuel with
  | O => Err EOutOfFuel
  | S f =>
    match room with
    | O => Ok []
    | S room' =>
      if pos <=? maxpos then
        match b_read s pos with
        | Ok (m, nxt) => do ms <- b_messages_loop f s nxt maxpos room'; Ok (m :: ms)
        | Err EEOF => Err ELogCorrupted
        | Err e => Err e
        end
      else Ok []
    end
  end.

Definition b_messages_consume (s : bseg) (pos maxpos maxcount : Z) : res (list msg) :=
  if maxcount <? 0 then Err EPanic
  else
    do _ <- log_version (blog s) (bbase s);
    b_messages_loop (S (length (bitems s))) s pos maxpos (Z.to_nat (Z.min maxcount (zlen (bitems s)))).

Definition b_get (s : bseg) (pos : Z) : res msg :=
  match b_read s pos with
  | Ok (m, _) => Ok m
  | Err EEOF => Err EOther            (* "read header: EOF" *)
  | Err e => Err e
  end.

Definition b_reader_consume (s : bseg) (hd : bool) (off max : Z) : res (Z * list msg) :=
  let items := bitems s in
  if off =? OffsetNewest then Ok (idx_next (bseg_hdr s) items, [])
  else
    do r <- ridx_consume (bseg_hdr s) items hd off;
    let '(pos, maxpos, nxt) := r in
    if pos =? -1 then Ok (nxt, [])
    else
      do ms <- b_messages_consume s pos maxpos max;
      match last_opt ms with
      | None => Err EPanic
      | Some m => Ok (moff m + 1, ms)
      end.

Definition b_reader_get (s : bseg) (hd : bool) (off : Z) : res msg :=
  do pos <- ridx_get (bseg_hdr s) (bitems s) hd off;
  b_get s pos.

Definition b_reader_get_by_key (s : bseg) (k : bytes) : res msg :=
  do ps <- keys_lookup (bitems s) (H k);
  (fix go (l : list Z) : res msg :=
     match l with
     | [] => Err EKeyNotFound
     | p :: r => do m <- b_get s p;
                 if bytes_eqb k (mkey m) then Ok m else go r
     end) (rev ps).

Fixpoint b_cbk_loop (s : bseg) (ps : list Z) (k : bytes) (off : Z) (room : nat) : res (list msg) :=
  match ps with
  | [] => Ok []
  | p :: r =>
    do m <- b_get s p;
    if moff m <? off then b_cbk_loop s r k off room
    else if bytes_eqb k (mkey m) then
      match room with
      | O => Ok [m]
      | S O => Ok [m]
      | S room' => do ms <- b_cbk_loop s r k off room'; Ok (m :: ms)
      end
    else b_cbk_loop s r k off room
  end.

Definition b_reader_consume_by_key (s : bseg) (k : bytes) (off max : Z) : res (Z * list msg) :=
  let items := bitems s in
  if off =? OffsetNewest then Ok (idx_next (bseg_hdr s) items, [])
  else match keys_lookup items (H k) with
       | Err EKeyNotFound => Ok (idx_next (bseg_hdr s) items, [])
       | Err e => Err e
       | Ok ps =>
         do ms <- b_cbk_loop s ps k off (Z.to_nat (Z.min max (zlen ps)));
         match last_opt ms with
         | None => Ok (idx_next (bseg_hdr s) items, [])
         | Some m => Ok (moff m + 1, ms)
         end
       end.

Definition b_reader_get_by_time (s : bseg) (ts : Z) : res msg :=
  do pos <- index_time (bitems s) ts;
  b_get s pos.

(* ---------- log level over a list of byte segments *)

Definition bbases (l : list bseg) : list Z := map bbase l.
Definition b_is_last (l : list bseg) (i : Z) : bool := i =? zlen l - 1.

Definition b_log_consume (l : list bseg) (off max : Z) : res (Z * list msg) :=
  do i <- seg_consume (bbases l) off;
  match znth l i with
  | None => Err EPanic
  | Some s =>
    match b_reader_consume s (b_is_last l i) off max with
    | Err EAfterEnd =>
      if i <? zlen l - 1 then
        match znth l (i + 1) with
        | None => Err EPanic
        | Some s2 => b_reader_consume s2 (b_is_last l (i + 1)) OffsetOldest max
        end
      else Err EAfterEnd
    | r => r
    end
  end.

Fixpoint b_get_newest_back (l : list bseg) (n : nat) (i : Z) : res msg :=
  match znth l i with
  | None => Err EPanic
  | Some s =>
    match b_reader_get s (b_is_last l i) OffsetNewest with
    | Err EIdxEmpty =>
      match n with
      | O => Err EIdxEmpty
      | S n' => if 0 <? i then b_get_newest_back l n' (i - 1) else Err EIdxEmpty
      end
    | r => r
    end
  end.

Definition b_log_get (l : list bseg) (off : Z) : res msg :=
  do i <- seg_get (bbases l) off;
  if off =? OffsetNewest then b_get_newest_back l (length l) i
  else match znth l i with
       | None => Err EPanic
       | Some s =>
         match b_reader_get s (b_is_last l i) off with
         | Err EAfterEnd => if i <? zlen l - 1 then Err EOffNotFound else Err EAfterEnd
         | r => r
         end
       end.

Fixpoint b_get_by_key_back (l : list bseg) (k : bytes) (n : nat) (i : Z) : res msg :=
  match n with
  | O => Err EKeyNotFound
  | S n' =>
    match znth l i with
    | None => Err EPanic
    | Some s =>
      match b_reader_get_by_key s k with
      | Ok m => Ok m
      | Err EKeyNotFound => b_get_by_key_back l k n' (i - 1)
      | Err e => Err e
      end
    end
  end.

Definition b_log_get_by_key (l : list bseg) (k : bytes) : res msg :=
  b_get_by_key_back l k (length l) (zlen l - 1).

Fixpoint b_consume_by_key_fwd (l : list bseg) (k : bytes) (n : nat) (i off max : Z) : res (Z * list msg) :=
  match n with
  | O => Err EOutOfFuel
  | S n' =>
    match znth l i with
    | None => Err EPanic
    | Some s =>
      do o <- b_reader_consume_by_key s k off max;
      match snd o with
      | _ :: _ => Ok o
      | [] => if zlen l - 1 <=? i then Ok o else b_consume_by_key_fwd l k n' (i + 1) OffsetOldest max
      end
    end
  end.

Definition b_log_consume_by_key (l : list bseg) (k : bytes) (off max : Z) : res (Z * list msg) :=
  do i <- seg_consume (bbases l) off;
  b_consume_by_key_fwd l k (S (length l)) i off max.

Fixpoint b_get_by_time_back (l : list bseg) (ts : Z) (n : nat) (i : Z) (cand : tcand) : res tcand :=
  match n with
  | O => Ok cand
  | S n' =>
    match znth l i with
    | None => Err EPanic
    | Some s =>
      match b_reader_get_by_time s ts with
      | Ok m => b_get_by_time_back l ts n' (i - 1) (TFound m)
      | Err ETimeBefore => b_get_by_time_back l ts n' (i - 1) (TBefore i)
      | Err ETimeEmpty => b_get_by_time_back l ts n' (i - 1) cand
      | Err ETimeAfter => Ok (match cand with TEmpty => TNone | _ => cand end)
      | Err e => Err e
      end
    end
  end.

Definition b_log_get_by_time (l : list bseg) (ts : Z) : res msg :=
  do cand <- b_get_by_time_back l ts (length l) (zlen l - 1) TEmpty;
  match cand with
  | TEmpty => Err ETimeEmpty
  | TNone => Err ETimeNotFound
  | TFound m => Ok m
  | TBefore i =>
    match znth l i with
    | None => Err EPanic
    | Some s => b_reader_get s (b_is_last l i) OffsetOldest
    end
  end.

(* Open with default options over these files: read-only opens nothing; a read-write open parses
   the head's file header and loads its index only when the file holds more than the header *)
Definition b_open (ro : bool) (l : list bseg) : res (list bseg) :=
  let mem := map (fun s => mkBseg (bbase s) (blog s) (bitems s) true) l in
  if ro then Ok mem
  else match rev mem with
       | [] => Ok mem
       | hd :: r =>
         if zlen (blog hd) =? 0 then Ok (rev (mkBseg (bbase hd) (enc_log_header V2) [] false :: r))
         else if zlen (blog hd) <? 8 then Err EOther
         else
           do _ <- log_version (blog hd) (bbase hd);
           if 8 <? zlen (blog hd) then Ok (rev (mkBseg (bbase hd) (blog hd) (bitems hd) false :: r))
           else Ok (rev (mkBseg (bbase hd) (blog hd) [] false :: r))
       end.

End BytesLog.
