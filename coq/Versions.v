(* Versions.v — C17: which format version every segment has after a Publish or a Delete. *)
From KV Require Import Base Model ListAux SearchProofs SegProofs ReaderProofs Spec LogInv ConsumeProofs AbsFacts
     PublishProofs DeleteProofs.
From Coq Require Import ZifyBool ZifyNat.

Section Versions.
Variable H : bytes -> Z.

Lemma in_replace_nth {A} (l : list A) : forall n x y, In x (replace_nth n l y) -> x = y \/ In x l.
Proof.
  induction l as [|a l IH]; intros n x y Hx; destruct n; cbn [replace_nth] in Hx; try contradiction.
  - destruct Hx as [<-|Hx]; [now left|right; now right].
  - destruct Hx as [<-|Hx]; [right; now left|]. destruct (IH _ _ _ Hx) as [->|Hin]; [now left|right; now right].
Qed.

(* Delete: every segment afterwards is an untouched segment, or is in NewSegmentsVersion (the new empty head, and
   the rewritten segment without KeepRewriteVersion), or - with KeepRewriteVersion - has the version of the segment
   it was rewritten from *)
Theorem delete_versions st offs st' deleted size c :
  Inv st -> opened st = Some c ->
  log_delete H st offs = Ok (st', (deleted, size)) ->
  forall s', In s' (segs st') ->
    In s' (segs st) \/ sver s' = cnewver c \/
    (ckeeprw c = true /\ exists src, In src (segs st) /\ sver s' = sver src).
Proof.
  intros HI Hc E s' Hs'. pose proof HI as (_ & HF & _).
  unfold log_delete, get_cfg in E. rewrite Hc in E. cbn [bind] in E.
  destruct (cro c); [discriminate|]. destruct offs as [|o offs']; [injection E as <- _ _; now left|].
  set (offs := o :: offs') in *.
  destruct (zmin_list offs <? 0); [discriminate|].
  destruct (seg_get (bases (segs st)) (zmin_list offs)) as [i|]; [|discriminate]. cbn [bind] in E.
  destruct (znth (segs st) i) as [src|] eqn:Esrc; [|discriminate].
  assert (Hsrc : In src (segs st)) by (eapply znth_in; eassumption).
  assert (Hv : open_log_reader src = Ok (sver src)).
  { apply seg_inv_open_log. rewrite Forall_forall in HF. now apply HF. }
  rewrite Hv in E. cbn [bind] in E.
  set (mv := if ckeeprw c then sver src else cnewver c) in *.
  assert (Hmv : forall r, sver r = mv -> In r (segs st) \/ sver r = cnewver c \/ (ckeeprw c = true /\ exists src0, In src0 (segs st) /\ sver r = sver src0)).
  { intros r Hr. unfold mv in Hr. destruct (ckeeprw c) eqn:Ek; [right; right; split; [reflexivity|exists src; split; assumption]|right; now left]. }
  destruct (filter (fun m => zmem (moff m) offs) (srecs src)) as [|d0 dl]; [injection E as <- _ _; now left|].
  destruct (is_last st i).
  - destruct (filter (fun m => negb (zmem (moff m) offs)) (srecs src)) as [|s0 sl].
    + injection E as <- _ _. cbn [segs] in Hs'. apply in_app_or in Hs'. destruct Hs' as [Hs'|Hs'].
      * left. eapply in_firstn. exact Hs'.
      * destruct Hs' as [Hs'|[]]. subst s'. right. left. reflexivity.
    + match type of E with (if ?b then _ else _) = _ => destruct b end; injection E as <- _ _; cbn [segs] in Hs'; apply in_app_or in Hs';
        (destruct Hs' as [Hs'|Hs']; [left; eapply in_firstn; exact Hs'|]).
      * destruct Hs' as [Hs'|[Hs'|[]]]; subst s'; [apply Hmv; reflexivity|right; left; reflexivity].
      * destruct Hs' as [Hs'|[]]. subst s'. apply Hmv. reflexivity.
  - destruct (filter (fun m => negb (zmem (moff m) offs)) (srecs src)) as [|s0 sl]; injection E as <- _ _.
    + change (In s' (firstn (Z.to_nat i) (segs st) ++ skipn (S (Z.to_nat i)) (segs st))) in Hs'.
      apply in_app_or in Hs'. destruct Hs' as [Hs'|Hs']; left; [eapply in_firstn|eapply in_skipn]; exact Hs'.
    + change (In s' (replace_nth (Z.to_nat i) (segs st) (rewritten H (cparams c) mv mv (s0 :: sl)))) in Hs'.
      destruct (in_replace_nth _ _ _ _ Hs') as [->|Hin]; [apply Hmv; reflexivity|now left].
Qed.

(* Publish: the writing segment afterwards is the old one, or - after a rollover - a new one in NewSegmentsVersion;
   every other segment is untouched *)
Theorem publish_versions st ms st' n c hd :
  opened st = Some c -> last_opt (segs st) = Some hd ->
  log_publish H st ms = Ok (st', n) ->
  exists pre hd', segs st' = pre ++ [hd'] /\
    sver hd' = (if needs_rollover c hd then cnewver c else sver hd) /\
    (forall s, In s pre -> In s (segs st)).
Proof.
  intros Hc Ehd E. unfold log_publish, get_cfg, head_seg in E. rewrite Hc in E. cbn [bind] in E.
  destruct (cro c); [discriminate|]. rewrite Ehd in E. cbn [bind] in E.
  destruct (@exists_last _ (segs st)) as (pre & hd0 & Esegs); [intro E0; rewrite E0 in Ehd; discriminate|].
  assert (hd0 = hd) by (rewrite Esegs, last_opt_app in Ehd; now injection Ehd). subst hd0.
  destruct (needs_rollover c hd) eqn:Er.
  - destruct (existsb msg_too_big ms); [discriminate|]. injection E as <- _.
    cbn [segs set_segs]. rewrite replace_last. eexists (pre ++ [hd]), _. split; [rewrite Esegs; reflexivity|]. split; [reflexivity|].
    intros s Hs. rewrite Esegs. exact Hs.
  - destruct (existsb msg_too_big ms); [discriminate|]. injection E as <- _.
    cbn [segs set_segs]. rewrite Esegs, replace_last. eexists pre, _. split; [reflexivity|]. split; [reflexivity|].
    intros s Hs. apply in_or_app. now left.
Qed.

End Versions.
