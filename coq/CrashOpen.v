(* CrashOpen.v — C05 at the level of the whole directory: a directory all of whose segments are well formed except that
   the index file of the NEWEST segment holds anything at all (missing, short, stale, torn: what a crash during a
   Publish, a rollover or an index write leaves) opens with Recover to a handle that satisfies Inv and shows exactly the
   records of the log files; hence a Publish cut short after any number of complete records, whatever became of the
   index file, reopens to the log before it plus a prefix of the batch. *)
From KV Require Import Base Model Spec ListAux SegProofs LogInv AbsFacts PublishProofs OpenProofs.
From Coq Require Import ZifyBool ZifyNat.

Section CrashOpen.
Variable H : bytes -> Z.

(* everything seg_inv says, except about the index file *)
Definition seg_inv_noidx (s : seg) : Prop :=
  recs_sorted (srecs s) /\ (forall m, In m (srecs s) -> 0 <= moff m) /\ first_is_base s /\ 0 <= sbase s.

Lemma seg_inv_noidx_of s : seg_inv s -> seg_inv_noidx s.
Proof. intros (A & B & C & _ & D). repeat split; assumption. Qed.

Lemma noidx_any_index s ix : seg_inv_noidx s -> seg_inv_noidx (set_idx s ix).
Proof. intros (A & B & C & D). repeat split; assumption. Qed.

Lemma open_log_noidx s : seg_inv_noidx s -> open_log_reader s = Ok (sver s).
Proof.
  intros (_ & _ & Hfb & _). unfold open_log_reader, first_is_base in *.
  destruct (sver s); [|reflexivity]. destruct (srecs s) as [|m r]; [reflexivity|].
  rewrite Hfb, Z.eqb_refl. reflexivity.
Qed.

Lemma items_eqb_eq' a b : list_eqb item_eqb a b = true -> a = b.
Proof.
  revert b. induction a as [|x a IH]; intros [|y b]; cbn [list_eqb]; try discriminate; [reflexivity|].
  intros E. apply andb_prop in E. destruct E as [E1 E2]. apply IH in E2. subst b. f_equal.
  unfold item_eqb in E1. destruct x, y; cbn in *. f_equal; lia.
Qed.

Lemma items_eqb_refl a : list_eqb item_eqb a a = true.
Proof. induction a as [|x a IH]; [reflexivity|]. cbn [list_eqb]. rewrite IH. unfold item_eqb. lia. Qed.

(* Recover of a segment whose index file holds anything: the records stay, the index becomes exact or goes *)
Lemma segment_recover_any p s :
  seg_inv_noidx s ->
  exists s', segment_recover H p s = Ok s' /\ seg_inv s' /\ same_recs s s' /\ segment_recover H p s' = Ok s'.
Proof.
  intros Hn. pose proof Hn as (A & B & C & D). unfold segment_recover. rewrite (open_log_noidx s Hn). cbn [bind].
  assert (Hnone : seg_inv (set_idx s None)).
  { repeat split; try assumption. intros iv items E. discriminate. }
  destruct (sidx s) as [ix|] eqn:Esi.
  - destruct (open_idx_reader s ix) as [items|e] eqn:Eo.
    + destruct (list_eqb item_eqb items (derive H p (sver s) (srecs s))) eqn:El.
      * (* the index file is the derived one *)
        exists s. split; [reflexivity|]. apply items_eqb_eq' in El.
        assert (Hs : seg_inv s).
        { repeat split; try assumption. intros iv its Ei. rewrite Esi in Ei. injection Ei as ->.
          right. unfold open_idx_reader in Eo. assert (items = its) by (destruct iv; [destruct its as [|it r]; [|destruct (ioff it =? sbase s)]|]; congruence).
          subst its. rewrite El. apply derive_from_match. }
        split; [exact Hs|]. split; [split; reflexivity|]. rewrite (open_log_noidx s Hn). cbn [bind].
        rewrite Esi, Eo, El. now rewrite items_eqb_refl.
      * eexists. split; [reflexivity|].
        assert (Hs : seg_inv (set_idx s (Some (fst ix, derive H p (sver s) (srecs s))))).
        { repeat split; try assumption. intros iv its Ei. cbn in Ei. injection Ei as <- <-. right. apply derive_from_match. }
        split; [exact Hs|]. split; [split; reflexivity|].
        cbn [set_idx sidx srecs sver sbase]. rewrite (open_log_noidx _ (noidx_any_index s _ Hn)). cbn [bind set_idx sidx sver srecs].
        rewrite (idx_reader_ok _ (fst ix) _ Hs eq_refl). cbn [set_idx srecs sver]. now rewrite items_eqb_refl.
    + exists (set_idx s None). split; [reflexivity|]. split; [exact Hnone|]. split; [split; reflexivity|].
      cbn [set_idx sidx]. rewrite (open_log_noidx _ (noidx_any_index s None Hn)). reflexivity.
  - exists s. split; [reflexivity|].
    assert (Hs : seg_inv s) by (repeat split; try assumption; intros iv its Ei; congruence).
    split; [exact Hs|]. split; [split; reflexivity|]. rewrite (open_log_noidx s Hn). cbn [bind]. now rewrite Esi.
Qed.

Lemma map_last_snoc {A} (f : A -> res A) front x : map_last f (front ++ [x]) = do y <- f x; Ok (front ++ [y]).
Proof.
  unfold map_last. rewrite rev_app_distr. cbn [rev app]. destruct (f x) as [y|e]; cbn [bind]; [|reflexivity].
  cbn [rev]. now rewrite rev_involutive.
Qed.

(* a directory as a crash leaves it: every segment well formed, but the index file of the newest one holds anything *)
Definition crash_dir (l : list seg) : Prop :=
  exists front hd, l = front ++ [hd] /\ Forall seg_inv front /\ seg_inv_noidx hd /\ chain_ok l.

Theorem crash_open_recovers st c0 :
  opened st = None -> lvirt st = false -> crash_dir (segs st) ->
  crecover (norm_cfg c0) = true -> cro (norm_cfg c0) = false ->
  forall st', log_open H st c0 = Ok st' -> Inv st' /\ abs st' = abs_dir (segs st).
Proof.
  intros Ho Hv (front & hd & Es & HF & Hn & Hch) Hrec Hro st' Hopen.
  destruct (segment_recover_any (cparams (norm_cfg c0)) hd Hn) as (hd' & E1 & Hi' & Hsr & Eid).
  set (st1 := set_segs st (front ++ [hd'])).
  assert (H2 : Forall2 same_recs (segs st) (front ++ [hd'])).
  { rewrite Es. apply Forall2_app_recs; [apply Forall2_refl_recs|constructor; [exact Hsr|constructor]]. }
  assert (Hcl : closed_dir st1).
  { split; [exact Ho|]. split; [exact Hv|]. split.
    - cbn [st1 set_segs segs]. apply Forall_app. split; [exact HF|constructor; [exact Hi'|constructor]].
    - cbn [st1 set_segs segs]. apply (chain_ok_recs (segs st)); [exact H2|]. rewrite Es in Hch |- *. exact Hch. }
  assert (Hsame : log_open H st1 c0 = log_open H st c0).
  { unfold log_open. cbn [st1 set_segs opened segs]. rewrite Ho, Es. rewrite Hro, Hrec.
    destruct front as [|f0 fr]; cbn [app].
    - change [hd'] with ([] ++ [hd']). change [hd] with ([] ++ [hd]). rewrite !map_last_snoc, E1, Eid. reflexivity.
    - change (f0 :: fr ++ [hd']) with ((f0 :: fr) ++ [hd']). change (f0 :: fr ++ [hd]) with ((f0 :: fr) ++ [hd]).
      rewrite !map_last_snoc, E1, Eid. reflexivity. }
  rewrite <- Hsame in Hopen.
  destruct (log_open_ok H st1 c0 Hcl) with (st' := st') as [HI Ha]; [|exact Hopen|].
  - cbn [st1 set_segs segs]. intro E. apply (f_equal (@length seg)) in E. rewrite app_length in E. cbn in E. lia.
  - split; [exact HI|]. rewrite Ha. cbn [st1 set_segs segs]. now apply abs_dir_recs.
Qed.

(* the newest index file replaced by anything *)
Definition damage_head_index (l : list seg) (ix : option (ver * list item)) : list seg :=
  match rev l with [] => [] | hd :: r => rev r ++ [set_idx hd ix] end.

Lemma damage_crash_dir l ix : l <> [] -> Forall seg_inv l -> chain_ok l ->
  crash_dir (damage_head_index l ix) /\ Forall2 same_recs l (damage_head_index l ix).
Proof.
  intros Hne HF Hch. destruct (@exists_last _ l Hne) as (pre & hd & ->).
  unfold damage_head_index. rewrite rev_app_distr. cbn [rev app]. rewrite rev_involutive.
  apply Forall_app in HF. destruct HF as [Hpre Hhd]. inversion Hhd as [|? ? Hh _]; subst.
  assert (H2 : Forall2 same_recs (pre ++ [hd]) (pre ++ [set_idx hd ix])).
  { apply Forall2_app_recs; [apply Forall2_refl_recs|constructor; [split; reflexivity|constructor]]. }
  split; [|exact H2]. exists pre, (set_idx hd ix). split; [reflexivity|]. split; [exact Hpre|].
  split; [apply noidx_any_index; now apply seg_inv_noidx_of|]. now apply (chain_ok_recs (pre ++ [hd])).
Qed.

(* a Publish cut short after k complete records of its batch - rollover done or not as the state required, and
   whatever the crash left of the writing segment's index file (nothing, a prefix, a torn item, stale items) - reopens
   with Recover to exactly the log before it plus the first k messages of the batch, with the offsets Publish assigns *)
Theorem publish_crash_recovers st c ms k ix c0 :
  Inv st -> opened st = Some c -> cro c = false -> sizes_ok (firstn k ms) ->
  exists st_k,
    log_publish H st (firstn k ms) = Ok (st_k, anext (abs st) + zlen (firstn k ms)) /\
    forall st',
      crecover (norm_cfg c0) = true -> cro (norm_cfg c0) = false ->
      log_open H (mkState (damage_head_index (segs st_k) ix) 0 None false) c0 = Ok st' ->
      Inv st' /\ abs st' = spec_publish (abs st) (firstn k ms).
Proof.
  intros HI Hc Hro Hsz.
  destruct (log_publish_correct H st (firstn k ms) HI (ex_intro _ c (conj Hc Hro)) Hsz) as (st_k & Ep & HIk & Hak & _).
  exists st_k. split; [exact Ep|]. intros st' Hrec Hro' Hopen.
  destruct HIk as (Hne & HF & Hch & _).
  destruct (damage_crash_dir (segs st_k) ix Hne HF Hch) as [Hcd H2].
  destruct (crash_open_recovers (mkState (damage_head_index (segs st_k) ix) 0 None false) c0 eq_refl eq_refl Hcd Hrec Hro' st' Hopen) as [HI' Ha'].
  split; [exact HI'|]. rewrite Ha'. cbn [segs]. rewrite (abs_dir_recs _ _ H2). rewrite <- Hak. symmetry. apply abs_dir_abs.
Qed.

End CrashOpen.
