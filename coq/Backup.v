(* Backup.v — C20: Log.Backup / klevdb.Backup on the segment-list model: every segment file of the source is
   copied into the target directory (a file whose size and mtime already match is skipped, which leaves the
   same content); files of the target that the source does not name are left alone.  Executable; no proofs. *)
From KV Require Import Base Model.

Fixpoint insert_seg (s : seg) (l : list seg) : list seg :=
  match l with
  | [] => [s]
  | x :: r => if sbase s <=? sbase x then s :: x :: r else x :: insert_seg s r
  end.

Definition sort_segs (l : list seg) : list seg := fold_right insert_seg [] l.

Definition has_base (b : Z) (l : list seg) : bool := existsb (fun n => sbase n =? b) l.

(* the target directory after the copy, in name order *)
Definition backup_dir (old src : list seg) : list seg :=
  sort_segs (filter (fun o => negb (has_base (sbase o) src)) old ++ src).

(* segment.Backup needs both files of every segment *)
Definition backup_check (src : list seg) : res unit :=
  if existsb (fun s => match sidx s with None => true | Some _ => false end) src then Err ENotExist else Ok tt.

Definition do_backup (old src : list seg) : res (list seg) :=
  do _ <- backup_check src; Ok (backup_dir old src).
