(* TimeProofs.v — C10: GetByTime returns the first live message at or after the given time, for logs whose
   message times never decrease with offset (and are not before 1970: the rebuilt index starts its running
   maximum at 0 — known finding F11 otherwise). *)
From KV Require Import Base Model ListAux SearchProofs SegProofs ReaderProofs Spec SpecFacts LogInv
     ConsumeProofs GetProofs AbsFacts KeyProofs.
From Coq Require Import ZifyBool ZifyNat.

Section TimeProofs.
Variable H : bytes -> Z.
Notation KInv := (KInv H).
Notation exact_items := (exact_items H).

(* times never decrease, starting at or above lo *)
Fixpoint tmono (lo : Z) (l : list msg) : Prop :=
  match l with [] => True | m :: r => lo <= mtime m /\ tmono (mtime m) r end.

Lemma tmono_weaken lo lo' l : lo' <= lo -> tmono lo l -> tmono lo' l.
Proof. destruct l; cbn; [trivial|]. intros Hle [H1 H2]. split; [lia|assumption]. Qed.

Lemma tmono_ge lo l x : tmono lo l -> In x l -> lo <= mtime x.
Proof.
  revert lo. induction l as [|m r IH]; intros lo Hm Hin; [contradiction|]. destruct Hm as [H1 H2].
  destruct Hin as [->|Hin]; [assumption|]. specialize (IH _ H2 Hin). lia.
Qed.

Lemma tmono_app lo a b : tmono lo (a ++ b) -> tmono lo a /\ (forall x y, In x a -> In y b -> mtime x <= mtime y) /\ tmono lo b.
Proof.
  revert lo. induction a as [|m r IH]; intros lo Hm; cbn [app] in *.
  - split; [exact I|]. split; [intros x y []|exact Hm].
  - destruct Hm as [H1 H2]. destruct (IH _ H2) as (A & B & C). split; [split; assumption|]. split.
    + intros x y [->|Hx] Hy; [|now apply B]. apply (tmono_ge _ _ _ H2). apply in_or_app. now right.
    + eapply tmono_weaken; [|exact C]. exact H1.
Qed.

Lemma tmono_sorted lo l : tmono lo l -> sorted_le (map mtime l).
Proof.
  revert lo. induction l as [|m r IH]; intros lo Hm i j a b Hi Hj Hij.
  - cbn in Hi. unfold znth in Hi. destruct (i <? 0); [discriminate|]. destruct (Z.to_nat i); discriminate.
  - destruct Hm as [H1 H2]. cbn [map] in *. pose proof (znth_some _ _ _ Hi). pose proof (znth_some _ _ _ Hj).
    destruct (Z.eq_dec i 0) as [->|Hi0].
    + rewrite znth_0 in Hi. injection Hi as <-. destruct (Z.eq_dec j 0) as [->|Hj0].
      * rewrite znth_0 in Hj. injection Hj as <-. lia.
      * rewrite znth_cons_pos in Hj by lia. apply znth_in in Hj. apply in_map_iff in Hj. destruct Hj as (x & <- & Hx).
        exact (tmono_ge _ _ _ H2 Hx).
    + rewrite znth_cons_pos in Hi by lia. rewrite znth_cons_pos in Hj by lia. apply (IH _ H2 (i - 1) (j - 1)); auto; lia.
Qed.

Lemma last_map' {A B} (f : A -> B) (l : list A) d : last (map f l) (f d) = f (last l d).
Proof. induction l as [|x l IH]; [reflexivity|]. destruct l; [reflexivity|]. cbn [map] in *. cbn [last]. exact IH. Qed.

(* ---------- a segment whose index timestamps are the message times *)

Definition faithful (s : seg) (items : list item) : Prop := map its items = map mtime (srecs s).

Lemma derive_faithful p v : ptimes p = true -> forall recs cur ts0,
  tmono ts0 recs -> map its (derive_from H p v cur ts0 recs) = map mtime recs.
Proof.
  intros Hpt. induction recs as [|m r IH]; intros cur ts0 Hm; [reflexivity|]. destruct Hm as [H1 H2].
  cbn [derive_from map]. unfold new_item at 1. cbn [its]. rewrite Hpt. rewrite Z.max_l by lia. f_equal.
  apply IH. unfold new_item. cbn [its]. rewrite Hpt. rewrite Z.max_l by lia. exact H2.
Qed.

Lemma first_ge_time p v ts : forall recs cur ts0 it,
  map its (derive_from H p v cur ts0 recs) = map mtime recs ->
  find (fun it => ts <=? its it) (derive_from H p v cur ts0 recs) = Some it ->
  exists m, In (ipos it, m) (placed v cur recs) /\ find (fun m => ts <=? mtime m) recs = Some m.
Proof.
  induction recs as [|m r IH]; intros cur ts0 it Hf Hfind; [discriminate|].
  cbn [derive_from map] in Hf. injection Hf as Hhd Htl.
  assert (Hits : its (new_item H p m cur ts0) = mtime m) by exact Hhd.
  cbn [derive_from find] in Hfind. cbn [placed find]. rewrite Hits in Hfind. rewrite Hhd in Htl.
  destruct (ts <=? mtime m) eqn:E.
  - injection Hfind as <-. exists m. split; [left; reflexivity|reflexivity].
  - destruct (IH _ _ it Htl Hfind) as (m' & Hin & Hf'). exists m'. split; [right; exact Hin|exact Hf'].
Qed.

(* reader.GetByTime on one segment *)
Theorem reader_get_by_time_spec p s items ts lo :
  exact_items p s items -> faithful s items -> tmono lo (srecs s) ->
  match srecs s with
  | [] => reader_get_by_time s items ts = Err ETimeEmpty
  | first :: _ =>
    let lst := last (srecs s) first in
    if ts <? mtime first then reader_get_by_time s items ts = Err ETimeBefore
    else if mtime lst <? ts then reader_get_by_time s items ts = Err ETimeAfter
    else exists m, find (fun m => ts <=? mtime m) (srecs s) = Some m /\ reader_get_by_time s items ts = Ok m
  end.
Proof.
  intros (ts0 & Hex) Hf Hm. unfold reader_get_by_time.
  assert (Hsorted : ts_sorted items) by (unfold ts_sorted; rewrite Hf; eapply tmono_sorted; eassumption).
  pose proof (index_time_spec items ts Hsorted) as Hspec.
  destruct (srecs s) as [|first rest] eqn:Er.
  - assert (items = []) by (rewrite Hex; reflexivity). subst items. reflexivity.
  - unfold faithful in Hf. rewrite ?Er in Hf. rewrite ?Er in Hex.
    destruct items as [|i0 ir] eqn:Ei; [discriminate|]. rewrite <- Ei in *.
    assert (Hfirst : its i0 = mtime first) by (rewrite Ei in Hf; cbn [map] in Hf; now injection Hf).
    assert (Hlast : its (last items i0) = mtime (last (first :: rest) first)).
    { assert (Hl : last (map its items) (its i0) = last (map mtime (first :: rest)) (mtime first)) by (rewrite Hf; f_equal; exact Hfirst).
      rewrite !last_map' in Hl. exact Hl. }
    assert (Hspec' : if ts <? its i0 then index_time items ts = Err ETimeBefore
                     else if its (last items i0) <? ts then index_time items ts = Err ETimeAfter
                     else exists it, first_ts_ge items ts = Some it /\ index_time items ts = Ok (ipos it)).
    { rewrite Ei in Hspec. rewrite Ei. exact Hspec. }
    rewrite Hfirst, Hlast in Hspec'. cbv zeta.
    destruct (ts <? mtime first) eqn:E1; [now rewrite Hspec'|].
    destruct (mtime (last (first :: rest) first) <? ts) eqn:E2; [now rewrite Hspec'|].
    destruct Hspec' as (it & Hfg & Hit). rewrite Hit. cbn [bind]. unfold first_ts_ge in Hfg.
    rewrite Hex in Hfg, Hf.
    destruct (first_ge_time p (sver s) ts (first :: rest) _ ts0 it Hf Hfg) as (m & Hin & Hfind).
    exists m. split; [exact Hfind|]. unfold read_at. rewrite Er. apply read_at_placed. exact Hin.
Qed.


(* ---------- the abstract walk, newest segment first *)

Inductive acand := AEmpty | ANone | AMsg (m : msg) | ABad.

Definition tpred (ts : Z) (m : msg) : bool := ts <=? mtime m.

Fixpoint tback (ts : Z) (rl : list (list msg)) (cand : acand) : acand :=
  match rl with
  | [] => cand
  | recs :: older =>
    match recs with
    | [] => tback ts older cand
    | first :: _ =>
      if ts <? mtime first then tback ts older (AMsg first)
      else if mtime (last recs first) <? ts then match cand with AEmpty => ANone | _ => cand end
      else match find (tpred ts) recs with
           | Some m => tback ts older (AMsg m)
           | None => cand
           end
    end
  end.

Definition final (ts : Z) (l : list msg) : acand :=
  match find (tpred ts) l with
  | Some m => AMsg m
  | None => match l with [] => AEmpty | _ => ANone end
  end.

Definition cand_ok (ts : Z) (cand : acand) (suffix : list msg) : Prop :=
  (cand = AEmpty /\ suffix = []) \/ exists m, cand = AMsg m /\ find (tpred ts) suffix = Some m.

Lemma find_none_all {A} (f : A -> bool) l : (forall x, In x l -> f x = false) -> find f l = None.
Proof. induction l as [|x l IH]; intros Hn; [reflexivity|]. cbn. rewrite (Hn x (or_introl eq_refl)). apply IH. intros y Hy. apply Hn. now right. Qed.

Lemma last_in {A} (l : list A) d : l <> [] -> In (last l d) l.
Proof.
  induction l as [|x l IH]; [congruence|]. intros _. destruct l as [|y l]; [left; reflexivity|].
  right. change (last (x :: y :: l) d) with (last (y :: l) d). apply IH. discriminate.
Qed.

Lemma tmono_le_last lo l d x : tmono lo l -> In x l -> mtime x <= mtime (last l d).
Proof.
  revert lo. induction l as [|m r IH]; intros lo Hm Hin; [contradiction|]. destruct Hm as [H1 H2].
  destruct r as [|y r'].
  - destruct Hin as [->|[]]. cbn. lia.
  - change (last (m :: y :: r') d) with (last (y :: r') d). destruct Hin as [->|Hin].
    + pose proof (tmono_ge _ _ _ H2 (last_in (y :: r') d ltac:(discriminate))). lia.
    + eapply IH; eassumption.
Qed.

Lemma tback_final ts lo : forall rl suffix cand,
  tmono lo (concat (rev rl) ++ suffix) -> cand_ok ts cand suffix ->
  tback ts rl cand = final ts (concat (rev rl) ++ suffix).
Proof.
  induction rl as [|recs older IH]; intros suffix cand Hm Hc.
  - cbn [rev concat app tback]. destruct Hc as [[-> ->]|(m & -> & Hf)]; unfold final; [reflexivity|now rewrite Hf].
  - cbn [rev] in *. rewrite concat_app in *. cbn [concat] in *. rewrite app_nil_r in *. rewrite <- app_assoc in *.
    cbn [tback]. destruct recs as [|first rest] eqn:Er.
    + cbn [app] in *. apply IH; assumption.
    + rewrite <- Er in *.
      destruct (tmono_app _ _ _ Hm) as (Hold & Hcross & Hrs). destruct (tmono_app _ _ _ Hrs) as (Hrecs & Hcross2 & _).
      assert (Hfirst_in : In first recs) by (rewrite Er; left; reflexivity).
      destruct (ts <? mtime first) eqn:E1.
      * apply IH; [exact Hm|]. right. exists first. split; [reflexivity|]. rewrite Er. cbn [app find]. unfold tpred at 1.
        destruct (ts <=? mtime first) eqn:E; [reflexivity|lia].
      * destruct (mtime (last recs first) <? ts) eqn:E2.
        -- (* everything up to and including this segment is earlier than ts *)
           assert (Hnone : find (tpred ts) (concat (rev older) ++ recs) = None).
           { apply find_none_all. intros x Hx. unfold tpred. apply in_app_or in Hx. destruct Hx as [Hx|Hx].
             - pose proof (Hcross x first Hx ltac:(apply in_or_app; left; exact Hfirst_in)).
               pose proof (tmono_le_last _ _ first first Hrecs Hfirst_in). lia.
             - pose proof (tmono_le_last _ _ first x Hrecs Hx). lia. }
           unfold final. rewrite app_assoc, find_app, Hnone.
           destruct Hc as [[-> ->]|(m & -> & Hf)].
           ++ cbn [find]. rewrite app_nil_r. destruct (concat (rev older) ++ recs) eqn:Ec; [|reflexivity].
              apply app_eq_nil in Ec. destruct Ec as [_ Ec]. rewrite Er in Ec. discriminate.
           ++ now rewrite Hf.
        -- assert (Hsome : exists m, find (tpred ts) recs = Some m).
           { destruct (find (tpred ts) recs) eqn:Ef; [eauto|]. exfalso.
             pose proof (find_none _ _ Ef (last recs first) (last_in recs first ltac:(rewrite Er; discriminate))) as Hn.
             unfold tpred in Hn. lia. }
           destruct Hsome as (m & Hfm). rewrite Hfm. apply IH; [exact Hm|]. right. exists m. split; [reflexivity|].
           rewrite find_app, Hfm. reflexivity.
Qed.

(* ---------- faithfulness through the lazy index load *)

Definition ts_faithful_seg (s : seg) : Prop :=
  forall iv items, sidx s = Some (iv, items) -> items = [] \/ faithful s items.

Definition TS (st : lstate) : Prop := Forall ts_faithful_seg (segs st).

Lemma all_recs_in_seg l s m : In s l -> In m (srecs s) -> In m (all_recs l).
Proof. intros Hs Hm. unfold all_recs. apply in_concat. exists (srecs s). split; [apply in_map; exact Hs|exact Hm]. Qed.

Lemma tmono_seg lo l : tmono lo (all_recs l) -> forall s, In s l -> tmono lo (srecs s).
Proof.
  induction l as [|x l IH]; intros Hm s Hin; [contradiction|]. rewrite all_recs_cons in Hm.
  destruct (tmono_app _ _ _ Hm) as (A & _ & B). destruct Hin as [->|Hin]; [exact A|]. apply IH; assumption.
Qed.

Lemma with_index_ts c st i st1 s' items :
  KInv (cparams c) st -> TS st -> opened st = Some c -> ctimes c = true -> tmono 0 (all_recs (segs st)) ->
  with_index H c st i = Ok (st1, s', items) ->
  faithful s' items /\ TS st1.
Proof.
  intros HK HT Hc Hpt Hm Hw. pose proof HK as (HI & HX & Hp).
  pose proof HI as (Hne & HF & Hch & Hv & c' & Hc' & Hhead). rewrite Hc in Hc'. injection Hc' as <-.
  unfold with_index in Hw. destruct (znth (segs st) i) as [s|] eqn:Hs; [|discriminate]. rewrite Hv in Hw.
  pose proof (Forall_znth _ _ _ _ HF Hs) as Hsi. pose proof (Forall_znth _ _ _ _ HT Hs) as Hst.
  pose proof (tmono_seg 0 _ Hm s (znth_in _ _ _ Hs)) as Hms.
  destruct ((i =? zlen (segs st) - 1) && negb (cro c)) eqn:Ehd.
  - injection Hw as <- <- <-. split; [|exact HT].
    assert (Hro : cro c = false) by (destruct (cro c); [rewrite andb_false_r in Ehd; discriminate|reflexivity]).
    specialize (Hhead Hro). rewrite last_opt_znth in Hhead.
    assert (Hi : i = zlen (segs st) - 1) by (destruct (i =? zlen (segs st) - 1) eqn:E; [lia|discriminate]).
    rewrite <- Hi, Hs in Hhead. destruct Hhead as (iv & its0 & Hsidx & Hmm). unfold head_items. rewrite Hsidx.
    destruct (Hst iv its0 Hsidx) as [->|Hf]; [|exact Hf].
    unfold faithful. destruct Hmm as [Ho _]. destruct (srecs s); [reflexivity|discriminate].
  - destruct (ensure_index H (cparams c) (cnewver c) s) as [[s2 its2]|] eqn:Ee; [|discriminate]. cbn [bind] in Hw.
    injection Hw as <- <- <-.
    assert (Hf2 : faithful s2 its2 /\ ts_faithful_seg s2).
    { unfold ensure_index in Ee. destruct (needs_reindex s) eqn:En.
      - unfold reindex in Ee. rewrite (seg_inv_open_log s Hsi) in Ee. cbn [bind] in Ee. injection Ee as <- <-.
        assert (Hd : faithful (set_idx s (Some (cnewver c, derive H (cparams c) (sver s) (srecs s)))) (derive H (cparams c) (sver s) (srecs s))).
        { unfold faithful, derive. cbn [srecs set_idx]. apply derive_faithful; [exact Hpt|exact Hms]. }
        split; [exact Hd|]. intros iv items E. cbn in E. injection E as <- <-. right. exact Hd.
      - unfold needs_reindex in En. destruct (sidx s) as [[iv its0]|] eqn:Esi; [|discriminate].
        destruct its0 as [|i0 ir]; [discriminate|].
        destruct (open_idx_reader s (iv, i0 :: ir)) as [items'|] eqn:Eo; [|discriminate]. cbn [bind] in Ee. injection Ee as <- <-.
        rewrite (OpenProofs.idx_reader_ok s iv (i0 :: ir) Hsi Esi) in Eo. injection Eo as <-.
        destruct (Hst iv (i0 :: ir) Esi) as [Hc0|Hf]; [discriminate|]. split; [exact Hf|exact Hst]. }
    destruct Hf2 as [Hf2 Hts2]. split; [exact Hf2|]. unfold TS. cbn [segs set_segs]. apply Forall_replace_nth; assumption.
Qed.


(* ---------- the walk of log.GetByTime refines the abstract one *)

Definition abs_cand (RL : list (list msg)) (c : tcand) : acand :=
  match c with
  | TEmpty => AEmpty
  | TNone => ANone
  | TFound m => AMsg m
  | TBefore j => match znth RL j with Some (first :: _) => AMsg first | _ => ABad end
  end.

Definition RLof (st : lstate) : list (list msg) := map srecs (segs st).

Lemma RL_shape l l' : Forall2 same_shape l l' -> map srecs l' = map srecs l.
Proof. intros HF. induction HF as [|s s' r r' Hs HF IH]; [reflexivity|]. cbn [map]. destruct Hs as (Hr & _). now rewrite Hr, IH. Qed.

Lemma Forall2_shape_trans a b d : Forall2 same_shape a b -> Forall2 same_shape b d -> Forall2 same_shape a d.
Proof.
  intros Hab. revert d. induction Hab as [|x y r r' Hxy Hab IH]; intros d Hbd; inversion Hbd; subst; constructor.
  - destruct Hxy as (A1 & A2 & A3). match goal with Hyz : same_shape y _ |- _ => destruct Hyz as (B1 & B2 & B3) end.
    repeat split; congruence.
  - apply IH. assumption.
Qed.

Lemma get_by_time_back_spec c ts : forall n st cand,
  KInv (cparams c) st -> TS st -> opened st = Some c -> ctimes c = true -> tmono 0 (all_recs (segs st)) ->
  (n <= length (segs st))%nat ->
  exists st1 cand1,
    get_by_time_back H c st ts n (Z.of_nat n - 1) cand = Ok (st1, cand1) /\
    KInv (cparams c) st1 /\ TS st1 /\ opened st1 = Some c /\ Forall2 same_shape (segs st) (segs st1) /\
    abs_cand (RLof st) cand1 = tback ts (rev (firstn n (RLof st))) (abs_cand (RLof st) cand).
Proof.
  induction n as [|n IH]; intros st cand HK HT Hc Hpt Hm Hn.
  - exists st, cand. cbn [get_by_time_back firstn rev tback]. split; [reflexivity|]. split; [exact HK|]. split; [exact HT|].
    split; [exact Hc|]. split; [|reflexivity]. clear. induction (segs st); constructor; [apply same_shape_refl|assumption].
  - cbn [get_by_time_back]. replace (Z.of_nat (S n) - 1) with (Z.of_nat n) by lia.
    pose proof HK as (HI & HX & Hp).
    assert (Hz : exists s, znth (segs st) (Z.of_nat n) = Some s).
    { unfold znth. destruct (Z.of_nat n <? 0) eqn:E; [lia|]. rewrite Nat2Z.id.
      destruct (nth_error (segs st) n) eqn:En; [eauto|]. apply nth_error_None in En. lia. }
    destruct Hz as (s & Hs).
    destruct (with_index_ok H c st (Z.of_nat n) s HI Hc Hs) as (st1 & s' & items & Hw & Hok & Hsh & Hst & HI1 & Hs1).
    rewrite Hw. cbn [bind]. destruct (with_index_exact H c st _ st1 s' items HK Hc Hw) as (Hex & HK1).
    destruct (with_index_ts c st _ st1 s' items HK HT Hc Hpt Hm Hw) as (Hfa & HT1).
    destruct Hst as (HF2 & Ho1 & _). pose proof Hsh as (Hr & _).
    assert (Hms : tmono 0 (srecs s')) by (rewrite Hr; apply (tmono_seg 0 _ Hm s (znth_in _ _ _ Hs))).
    pose proof (reader_get_by_time_spec (cparams c) s' items ts 0 Hex Hfa Hms) as Hrd.
    assert (HzRL : znth (RLof st) (Z.of_nat n) = Some (srecs s)) by (unfold RLof; rewrite znth_map, Hs; reflexivity).
    rewrite (firstn_succ_znth _ _ _ HzRL). rewrite rev_app_distr. cbn [rev app tback].
    assert (Hm1 : tmono 0 (all_recs (segs st1))) by (rewrite (all_recs_shape _ _ HF2); exact Hm).
    assert (Hn1 : (n <= length (segs st1))%nat) by (rewrite <- (Forall2_len _ _ _ HF2); lia).
    assert (HRL1 : RLof st1 = RLof st) by (apply RL_shape; exact HF2).
    assert (Hc1 : opened st1 = Some c) by congruence.
    rewrite Hr in Hrd. destruct (srecs s) as [|first rest] eqn:Er.
    + (* empty segment: skipped *)
      rewrite Hrd. destruct (IH st1 cand HK1 HT1 Hc1 Hpt Hm1 Hn1) as (st2 & cand2 & E2 & K2 & T2 & O2 & F2 & A2).
      exists st2, cand2. rewrite HRL1 in A2. split; [exact E2|]. split; [exact K2|]. split; [exact T2|]. split; [exact O2|].
      split; [eapply Forall2_shape_trans; eassumption|exact A2].
    + cbv zeta in Hrd. destruct (ts <? mtime first) eqn:E1.
      * rewrite Hrd. destruct (IH st1 (TBefore (Z.of_nat n)) HK1 HT1 Hc1 Hpt Hm1 Hn1) as (st2 & cand2 & E2 & K2 & T2 & O2 & F2 & A2).
        exists st2, cand2. rewrite HRL1 in A2. split; [exact E2|]. split; [exact K2|]. split; [exact T2|]. split; [exact O2|].
        split; [eapply Forall2_shape_trans; eassumption|]. rewrite A2. cbn [abs_cand]. rewrite HzRL. reflexivity.
      * destruct (mtime (last (first :: rest) first) <? ts) eqn:E2.
        -- rewrite Hrd. exists st1, (match cand with TEmpty => TNone | _ => cand end).
           split; [reflexivity|]. split; [exact HK1|]. split; [exact HT1|]. split; [exact Hc1|]. split; [exact HF2|].
           destruct cand as [| |m|j]; cbn [abs_cand]; try reflexivity. destruct (znth (RLof st) j) as [[|f r]|]; reflexivity.
        -- destruct Hrd as (m & Hfind & Hrd). rewrite Hrd. unfold tpred. rewrite Hfind.
           destruct (IH st1 (TFound m) HK1 HT1 Hc1 Hpt Hm1 Hn1) as (st2 & cand2 & E3 & K2 & T2 & O2 & F2 & A2).
           exists st2, cand2. rewrite HRL1 in A2. split; [exact E3|]. split; [exact K2|]. split; [exact T2|]. split; [exact O2|].
           split; [eapply Forall2_shape_trans; eassumption|exact A2].
Qed.

(* GetByTime on a log whose times never decrease with offset (and are not negative) and whose index timestamps
   are the message times: the live message with the smallest offset whose time is not before ts;
   ErrNotFound if every live message is earlier; ErrInvalidOffset (or NotFound) on a log without messages;
   ErrNoIndex without the time index *)
Theorem log_get_by_time_correct c st ts :
  KInv (cparams c) st -> TS st -> opened st = Some c -> tmono 0 (live (abs st)) ->
  check_get_by_time (abs st) (ctimes c) ts (obs_get (log_get_by_time H st ts)) = true.
Proof.
  intros HK HT Hc Hm. unfold log_get_by_time, get_cfg. rewrite Hc. cbn [bind]. unfold check_get_by_time.
  destruct (ctimes c) eqn:Hpt; cbn [negb]; [|reflexivity].
  replace (zlen (segs st) - 1) with (Z.of_nat (length (segs st)) - 1) by reflexivity.
  destruct (get_by_time_back_spec c ts (length (segs st)) st TEmpty HK HT Hc Hpt Hm (le_n _))
    as (st1 & cand1 & E & K1 & T1 & O1 & F1 & A1).
  rewrite E. cbn [bind].
  assert (Hall : firstn (length (segs st)) (RLof st) = RLof st) by (apply firstn_all2; unfold RLof; rewrite map_length; lia).
  rewrite Hall in A1. cbn [abs_cand] in A1.
  assert (Hfin : tback ts (rev (RLof st)) AEmpty = final ts (live (abs st))).
  { rewrite (tback_final ts 0 (rev (RLof st)) [] AEmpty).
    - rewrite rev_involutive, app_nil_r. reflexivity.
    - rewrite rev_involutive, app_nil_r. exact Hm.
    - left. split; reflexivity. }
  rewrite Hfin in A1. unfold final, tpred in A1.
  destruct cand1 as [| |m|j]; cbn [abs_cand] in A1.
  - destruct (find (fun m => ts <=? mtime m) (live (abs st))); [discriminate|].
    destruct (live (abs st)); [reflexivity|discriminate].
  - destruct (find (fun m => ts <=? mtime m) (live (abs st))); [discriminate|].
    destruct (live (abs st)); [discriminate|reflexivity].
  - destruct (find (fun m => ts <=? mtime m) (live (abs st))) as [m'|]; [injection A1 as ->; apply msg_eqb_refl|].
    destruct (live (abs st)); discriminate.
  - (* the answer is the oldest message of segment j *)
    destruct (znth (RLof st) j) as [[|first rest]|] eqn:Ej.
    + (* unreachable: the walk never leaves TBefore pointing at an empty segment *)
      destruct (find _ (live (abs st))); [discriminate|]. destruct (live (abs st)); discriminate.
    + destruct (find (fun m => ts <=? mtime m) (live (abs st))) as [m'|] eqn:Ef; [|destruct (live (abs st)); discriminate].
      injection A1 as <-.
      assert (Hz1 : exists s1, znth (segs st1) j = Some s1 /\ srecs s1 = first :: rest).
      { assert (HRL1 : RLof st1 = RLof st) by (apply RL_shape; exact F1). rewrite <- HRL1 in Ej. unfold RLof in Ej.
        rewrite znth_map in Ej. destruct (znth (segs st1) j) as [s1|]; [|discriminate]. cbn in Ej. injection Ej as Ej. eauto. }
      destruct Hz1 as (s1 & Hs1 & Hr1). pose proof K1 as (HI1 & _).
      destruct (with_index_ok H c st1 j s1 HI1 O1 Hs1) as (st2 & s2 & items2 & Hw & Hok & Hsh & _).
      rewrite Hw. cbn [bind]. destruct Hsh as (Hr2 & _).
      rewrite (reader_get_oldest s2 items2 _ first rest Hok ltac:(congruence)). cbn [bind obs_get]. apply msg_eqb_refl.
    + destruct (find _ (live (abs st))); [discriminate|]. destruct (live (abs st)); discriminate.
Qed.

End TimeProofs.
