(* RecoverCrash.v — C05: segment.Recover (pkg/segment/segment.go) as a program of file-system steps on the four files it
   touches - the segment's log, its index, the temporary copy <log>.recover and the temporary index <index>.tmp of
   index.Write - and the images a crash after any prefix of the steps (or part-way through a file append) leaves.
   The program is computed from the file contents exactly as the Go code decides its steps; the harness compares it
   with the FS tap of the real Recover on every damaged head of the C05/C07 runs.  Executable; proofs in
   RecoverCrashProofs.v. *)
From KV Require Import Base Model Codec.

Inductive rfile := RfLog | RfRtmp | RfIdx | RfItmp.

Inductive rstep :=
| RRemove (f : rfile)                    (* os.Remove, no error if missing *)
| RCreate (f : rfile) (hdr : bytes)      (* OpenWriter of a new file: created with its header (atomic, as the property stipulates) *)
| RWrite (f : rfile) (bs : bytes)        (* one append *)
| RFsync (f : rfile)
| RRename (src dst : rfile).             (* os.Rename: replaces dst *)

Record rfiles := mkRf { rlog : bytes; rrtmp : option bytes; ridx : option bytes; ritmp : option bytes }.

Definition rget (st : rfiles) (f : rfile) : option bytes :=
  match f with RfLog => Some (rlog st) | RfRtmp => rrtmp st | RfIdx => ridx st | RfItmp => ritmp st end.

Definition rset (st : rfiles) (f : rfile) (c : option bytes) : rfiles :=
  match f with
  | RfLog => match c with Some b => mkRf b (rrtmp st) (ridx st) (ritmp st) | None => st end   (* the log is never removed *)
  | RfRtmp => mkRf (rlog st) c (ridx st) (ritmp st)
  | RfIdx => mkRf (rlog st) (rrtmp st) c (ritmp st)
  | RfItmp => mkRf (rlog st) (rrtmp st) (ridx st) c
  end.

Definition rexec (st : rfiles) (s : rstep) : rfiles :=
  match s with
  | RRemove f => rset st f None
  | RCreate f hdr => rset st f (Some hdr)
  | RWrite f bs => match rget st f with Some c => rset st f (Some (c ++ bs)) | None => st end
  | RFsync _ => st
  | RRename src dst => match rget st src with Some c => rset (rset st dst (Some c)) src None | None => st end
  end.

Definition rrun (st : rfiles) (prog : list rstep) : rfiles := fold_left rexec prog st.

(* the image a crash leaves: k whole steps, and - when step k is an append - any part j of it *)
Definition rimage (st : rfiles) (prog : list rstep) (k j : nat) : rfiles :=
  let s := rrun st (firstn k prog) in
  match nth_error prog k with
  | Some (RWrite f bs) => rexec s (RWrite f (firstn j bs))
  | _ => s
  end.

(* what the index file is after Recover, given the items derived from the recovered log *)
Definition idx_after (p : params) (base : Z) (idx : option bytes) (items : list item) : option bytes :=
  match idx with
  | None => None
  | Some ib =>
    match index_read p base ib with
    | Err _ => None                                   (* unreadable: removed, rebuilt lazily on open *)
    | Ok (iv, have) => if list_eqb item_eqb have items then Some ib else Some (enc_index iv p items)
    end
  end.

(* index.Write: temporary file, items one by one, fsync, rename into place *)
Definition index_write_prog (p : params) (iv : ver) (items : list item) : list rstep :=
  [RRemove RfItmp; RCreate RfItmp (enc_idx_header iv p)] ++ map (fun it => RWrite RfItmp (enc_item p it)) items
    ++ [RFsync RfItmp; RRename RfItmp RfIdx].

Definition index_part (p : params) (base : Z) (idx : option bytes) (items : list item) : list rstep :=
  match idx with
  | None => []
  | Some ib =>
    match index_read p base ib with
    | Err _ => [RRemove RfIdx]
    | Ok (iv, have) => if list_eqb item_eqb have items then [] else RRemove RfIdx :: index_write_prog p iv items
    end
  end.

Definition copy_part (crc : bytes -> Z) (v : ver) (ms : list msg) : list rstep :=
  [RRemove RfRtmp; RCreate RfRtmp (enc_log_header v)] ++ map (fun m => RWrite RfRtmp (enc_rec crc v m)) ms ++ [RFsync RfRtmp].

(* Segment.Recover *)
Definition recover_prog (crc H : bytes -> Z) (p : params) (base : Z) (logb : bytes) (idxb : option bytes)
  : res (list rstep) :=
  do v <- log_version logb base;
  let '(recs, _, e) := scan_log crc (scan_fuel_of logb) v logb (hdr_size v) in
  match e with
  | ScanFuel => Err EOutOfFuel
  | _ =>
    let swap := match e with ScanCorrupt => RRename RfRtmp RfLog | _ => RRemove RfRtmp end in
    Ok (copy_part crc v (map snd recs) ++ [swap] ++ index_part p base idxb (scan_items H p recs))
  end.

(* the positions at which records written back to back from pos land *)
Fixpoint placed_at (v : ver) (pos : Z) (ms : list msg) : list (Z * msg) :=
  match ms with [] => [] | m :: r => (pos, m) :: placed_at v (pos + rec_size v m) r end.

(* Segment.Migrate of a log file that parses completely: the index is removed first, the records are re-encoded into
   <log>.migrate (RfRtmp plays that file), which is renamed over the log, then index.Write of the index derived from the
   NEW positions.  Nothing happens when the file already is in the target version. *)
Definition migrate_prog (crc H : bytes -> Z) (p : params) (base : Z) (mv iv : ver) (logb : bytes) : res (list rstep) :=
  do v <- log_version logb base;
  if ver_eqb v mv then Ok []
  else
    let '(recs, _, e) := scan_log crc (scan_fuel_of logb) v logb (hdr_size v) in
    match e with
    | ScanEOF =>
      let ms := map snd recs in
      Ok ([RRemove RfIdx] ++ copy_part crc mv ms ++ [RRename RfRtmp RfLog]
            ++ index_write_prog p iv (scan_items H p (placed_at mv (hdr_size mv) ms)))
    | ScanCorrupt => Err ELogCorrupted
    | ScanFuel => Err EOutOfFuel
    end.

(* ---------- C06: which files are entirely on stable storage.  A file is durable when every byte written to it has been
   fsynced (a new file is created with its header, durably - the stipulation of the property); a rename carries the
   durability of its source to its target. *)
Record sflags := mkS { s_log : bool; s_rtmp : bool; s_idx : bool; s_itmp : bool }.

Definition sget (s : sflags) (f : rfile) : bool :=
  match f with RfLog => s_log s | RfRtmp => s_rtmp s | RfIdx => s_idx s | RfItmp => s_itmp s end.

Definition sset (s : sflags) (f : rfile) (b : bool) : sflags :=
  match f with
  | RfLog => mkS b (s_rtmp s) (s_idx s) (s_itmp s)
  | RfRtmp => mkS (s_log s) b (s_idx s) (s_itmp s)
  | RfIdx => mkS (s_log s) (s_rtmp s) b (s_itmp s)
  | RfItmp => mkS (s_log s) (s_rtmp s) (s_idx s) b
  end.

Definition sexec (s : sflags) (st : rstep) : sflags :=
  match st with
  | RRemove f => sset s f true            (* no file: nothing to lose *)
  | RCreate f _ => sset s f true
  | RWrite f _ => sset s f false
  | RFsync f => sset s f true
  | RRename a b => sset (sset s b (sget s a)) a true
  end.

Definition srun (s : sflags) (prog : list rstep) : sflags := fold_left sexec prog s.

(* after every step of the program the segment's log file and index file are durable *)
Fixpoint live_durable (s : sflags) (prog : list rstep) : Prop :=
  match prog with
  | [] => True
  | st :: r => s_log (sexec s st) = true /\ s_idx (sexec s st) = true /\ live_durable (sexec s st) r
  end.
