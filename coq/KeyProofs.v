(* KeyProofs.v — C09: the exact-index invariant (every index file present is the index derived from its log
   file, key hashes and timestamps included) and key lookups: GetByKey returns the last live message whose
   key is byte-for-byte the argument, also when other keys share the hash. *)
From KV Require Import Base Model ListAux SearchProofs SegProofs ReaderProofs Spec SpecFacts LogInv
     ConsumeProofs GetProofs AbsFacts PublishProofs DeleteProofs OpenProofs ReadsPreserve.
From Coq Require Import ZifyBool ZifyNat.

Section KeyProofs.
Variable H : bytes -> Z.

(* ---------- exact index *)

Definition exact_items (p : params) (s : seg) (items : list item) : Prop :=
  exists ts0, items = derive_from H p (sver s) (hdr_size (sver s)) ts0 (srecs s).

Definition idx_exact (p : params) (s : seg) : Prop :=
  forall iv items, sidx s = Some (iv, items) -> items = [] \/ exact_items p s items.

Lemma exact_items_match p s items : exact_items p s items -> items_match (sver s) (hdr_size (sver s)) (srecs s) items.
Proof. intros (ts0 & ->). apply derive_from_match. Qed.

Lemma ensure_index_exact p newv s s' items :
  seg_inv s -> idx_exact p s -> ensure_index H p newv s = Ok (s', items) ->
  exact_items p s' items /\ idx_exact p s' /\ same_shape s s'.
Proof.
  intros Hi Hx. unfold ensure_index. destruct (needs_reindex s) eqn:En.
  - unfold reindex. rewrite (seg_inv_open_log s Hi). cbn [bind]. intros E. injection E as <- <-.
    split; [exists 0; reflexivity|]. split; [|repeat split].
    intros iv items E. cbn in E. injection E as <- <-. right. exists 0. reflexivity.
  - unfold needs_reindex in En. destruct (sidx s) as [[iv its0]|] eqn:Esi; [|discriminate].
    destruct its0 as [|i0 ir]; [discriminate|].
    destruct (open_idx_reader s (iv, i0 :: ir)) as [items'|] eqn:Eo; [|discriminate]. cbn [bind]. intros E. injection E as <- <-.
    rewrite (idx_reader_ok s iv (i0 :: ir) Hi Esi) in Eo. injection Eo as <-.
    destruct (Hx iv (i0 :: ir) Esi) as [Hc|Hex]; [discriminate|]. split; [exact Hex|]. split; [exact Hx|apply same_shape_refl].
Qed.

(* the strengthened invariant for sessions with fixed index options p *)
Definition KInv (p : params) (st : lstate) : Prop :=
  Inv st /\ Forall (idx_exact p) (segs st) /\ forall c, opened st = Some c -> cparams c = p.

Lemma Forall_replace_nth {A} (P : A -> Prop) (l : list A) n x : Forall P l -> P x -> Forall P (replace_nth n l x).
Proof.
  revert n. induction l as [|y l IH]; intros n HF Hx; destruct n; cbn; try constructor; inversion HF; subst; auto.
Qed.

Lemma with_index_exact c st i st1 s' items :
  KInv (cparams c) st -> opened st = Some c -> with_index H c st i = Ok (st1, s', items) ->
  exact_items (cparams c) s' items /\ KInv (cparams c) st1.
Proof.
  intros (HI & HX & Hp) Hc Hw.
  destruct (with_index_preserves H c st i st1 s' items HI Hc Hw) as (HI1 & _ & Hc1 & _).
  pose proof HI as (Hne & HF & Hch & Hv & c' & Hc' & Hhead). rewrite Hc in Hc'. injection Hc' as <-.
  unfold with_index in Hw. destruct (znth (segs st) i) as [s|] eqn:Hs; [|discriminate]. rewrite Hv in Hw.
  pose proof (Forall_znth _ _ _ _ HF Hs) as Hsi. pose proof (Forall_znth _ _ _ _ HX Hs) as Hsx.
  destruct ((i =? zlen (segs st) - 1) && negb (cro c)) eqn:Ehd.
  - injection Hw as <- <- <-. split; [|split; [assumption|split; assumption]].
    assert (Hro : cro c = false) by (destruct (cro c); [rewrite andb_false_r in Ehd; discriminate|reflexivity]).
    specialize (Hhead Hro). rewrite last_opt_znth in Hhead.
    assert (Hi : i = zlen (segs st) - 1) by (destruct (i =? zlen (segs st) - 1) eqn:E; [lia|discriminate]).
    rewrite <- Hi, Hs in Hhead. destruct Hhead as (iv & its0 & Hsidx & Hm). unfold head_items. rewrite Hsidx.
    destruct (Hsx iv its0 Hsidx) as [->|Hex]; [|exact Hex].
    exists 0. destruct (srecs s) as [|m r] eqn:Er; [reflexivity|]. destruct Hm as [Ho _]. discriminate.
  - destruct (ensure_index H (cparams c) (cnewver c) s) as [[s2 its2]|] eqn:Ee; [|discriminate]. cbn [bind] in Hw.
    injection Hw as <- <- <-. destruct (ensure_index_exact _ _ _ _ _ Hsi Hsx Ee) as (Hex & Hx2 & _).
    split; [exact Hex|]. split; [exact HI1|]. split; [|intros c2 E; cbn in E; rewrite Hc in E; injection E as <-; reflexivity].
    cbn [segs set_segs]. apply Forall_replace_nth; assumption.
Qed.

(* ---------- one segment: positions and hashes of the derived index *)

Fixpoint placed (v : ver) (cur : Z) (recs : list msg) : list (Z * msg) :=
  match recs with [] => [] | m :: r => (cur, m) :: placed v (cur + rec_size v m) r end.

Lemma placed_snd v recs : forall cur, map snd (placed v cur recs) = recs.
Proof. induction recs as [|m r IH]; intros cur; [reflexivity|]. cbn [placed map snd]. now rewrite IH. Qed.

Lemma placed_ge v recs : forall cur pos m, In (pos, m) (placed v cur recs) -> cur <= pos.
Proof.
  induction recs as [|x r IH]; intros cur pos m Hin; [contradiction|]. cbn [placed] in Hin.
  destruct Hin as [E|Hin]; [injection E as <- _; lia|]. specialize (IH _ _ _ Hin). pose proof (rec_size_pos v x). lia.
Qed.

Lemma read_at_placed v recs : forall cur pos m, In (pos, m) (placed v cur recs) -> read_at_from v cur recs pos = Ok m.
Proof.
  induction recs as [|x r IH]; intros cur pos m Hin; [contradiction|]. cbn [placed] in Hin. cbn [read_at_from].
  destruct Hin as [E|Hin].
  - injection E as <- <-. now rewrite Z.eqb_refl.
  - pose proof (placed_ge _ _ _ _ _ Hin). pose proof (rec_size_pos v x).
    destruct (pos =? cur) eqn:E1; [lia|]. destruct (pos <? cur + rec_size v x) eqn:E2; [lia|]. now apply IH.
Qed.

Lemma lookup_derive p v h recs : pkeys p = true -> forall cur ts,
  map ipos (filter (fun it => ihash it =? h) (derive_from H p v cur ts recs)) =
  map fst (filter (fun pm => H (mkey (snd pm)) =? h) (placed v cur recs)).
Proof.
  intros Hk. induction recs as [|m r IH]; intros cur ts; [reflexivity|]. cbn [derive_from placed filter].
  unfold new_item at 1. cbn [ihash snd]. rewrite Hk.
  destruct (H (mkey m) =? h); cbn [map fst ipos]; [f_equal|]; apply IH.
Qed.

Lemma find_rev_last {A} (f : A -> bool) (l : list A) : find f (rev l) = last_opt (filter f l).
Proof.
  induction l as [|x l IH]; [reflexivity|]. cbn [rev filter]. rewrite find_app, IH.
  destruct (f x) eqn:Ef.
  - destruct (filter f l) as [|y r] eqn:Efl; [cbn; now rewrite Ef|]. rewrite last_opt_cons_cons.
    destruct (last_opt (y :: r)) eqn:El; [reflexivity|]. apply last_opt_none in El. discriminate.
  - destruct (last_opt (filter f l)); [reflexivity|]. cbn. now rewrite Ef.
Qed.

Definition gk_go (s : seg) (k : bytes) : list Z -> res msg :=
  fix go (l : list Z) : res msg :=
    match l with
    | [] => Err EKeyNotFound
    | p :: r => do m <- read_at s p; if bytes_eqb k (mkey m) then Ok m else go r
    end.

Lemma gk_go_spec s k : forall (l : list (Z * msg)),
  (forall pm, In pm l -> read_at s (fst pm) = Ok (snd pm)) ->
  gk_go s k (map fst l) = match find (fun pm => bytes_eqb k (mkey (snd pm))) l with
                          | Some pm => Ok (snd pm) | None => Err EKeyNotFound end.
Proof.
  induction l as [|pm l IH]; intros Hr; [reflexivity|]. cbn [map gk_go find].
  rewrite (Hr pm (or_introl eq_refl)). cbn [bind]. destruct (bytes_eqb k (mkey (snd pm))); [reflexivity|].
  apply IH. intros x Hx. apply Hr. now right.
Qed.

Lemma filter_filter_imp {A} (f g : A -> bool) l : (forall x, f x = true -> g x = true) -> filter f (filter g l) = filter f l.
Proof.
  intros Himp. induction l as [|x l IH]; [reflexivity|]. cbn [filter]. destruct (g x) eqn:Eg.
  - cbn [filter]. now rewrite IH.
  - destruct (f x) eqn:Ef; [rewrite (Himp x Ef) in Eg; discriminate|exact IH].
Qed.

Lemma filter_map_snd {A B} (f : B -> bool) (l : list (A * B)) : map snd (filter (fun pm => f (snd pm)) l) = filter f (map snd l).
Proof. induction l as [|x l IH]; [reflexivity|]. cbn [filter map]. destruct (f (snd x)); cbn [map]; now rewrite IH. Qed.

Lemma last_opt_map_snd {A B} (l : list (A * B)) : option_map snd (last_opt l) = last_opt (map snd l).
Proof. symmetry. apply last_opt_map. Qed.

(* reader.GetByKey on a segment whose index is the derived one *)
Theorem reader_get_by_key_spec p s items k :
  pkeys p = true -> exact_items p s items ->
  reader_get_by_key H s items k =
  match last_opt (filter (has_key k) (srecs s)) with Some m => Ok m | None => Err EKeyNotFound end.
Proof.
  intros Hk (ts0 & ->). unfold reader_get_by_key, keys_lookup.
  rewrite (lookup_derive p (sver s) (H k) (srecs s) Hk).
  set (pl := placed (sver s) (hdr_size (sver s)) (srecs s)).
  set (hm := filter (fun pm => H (mkey (snd pm)) =? H k) pl).
  assert (Hkeyhash : forall pm : Z * msg, bytes_eqb k (mkey (snd pm)) = true -> (H (mkey (snd pm)) =? H k) = true).
  { intros pm E. apply bytes_eqb_eq in E. rewrite <- E. apply Z.eqb_refl. }
  assert (Hfinal : match find (fun pm => bytes_eqb k (mkey (snd pm))) (rev hm) with
                   | Some pm => Ok (snd pm) | None => Err EKeyNotFound end =
                   match last_opt (filter (has_key k) (srecs s)) with Some m => Ok m | None => Err EKeyNotFound end).
  { rewrite find_rev_last. unfold hm. rewrite (filter_filter_imp _ _ pl Hkeyhash).
    rewrite <- (placed_snd (sver s) (srecs s) (hdr_size (sver s))). fold pl. unfold has_key.
    rewrite <- (filter_map_snd (fun m => bytes_eqb k (mkey m)) pl). rewrite <- last_opt_map_snd.
    destruct (last_opt (filter (fun pm => bytes_eqb k (mkey (snd pm))) pl)); reflexivity. }
  destruct (map fst hm) as [|p0 pr] eqn:Emap.
  - cbn [bind]. rewrite <- Hfinal. destruct hm; [reflexivity|discriminate].
  - cbn [bind]. rewrite <- Emap. rewrite <- map_rev. change (fix go (l : list Z) : res msg := match l with
      | [] => Err EKeyNotFound | p1 :: r => do m <- read_at s p1; if bytes_eqb k (mkey m) then Ok m else go r end) with (gk_go s k).
    rewrite gk_go_spec; [exact Hfinal|].
    intros pm Hin. apply in_rev in Hin. unfold hm in Hin. apply filter_In in Hin. destruct Hin as [Hin _].
    destruct pm as [pos m]. unfold read_at. apply read_at_placed. exact Hin.
Qed.


(* ---------- the log: newest segment first *)

Lemma firstn_succ_znth {A} (l : list A) n x : znth l (Z.of_nat n) = Some x -> firstn (S n) l = firstn n l ++ [x].
Proof.
  intros Hz. apply znth_nth_error in Hz. rewrite Nat2Z.id in Hz. revert l Hz.
  induction n as [|n IH]; intros [|y l] Hz; cbn in Hz; try discriminate.
  - injection Hz as ->. reflexivity.
  - cbn [firstn app]. f_equal. apply IH. exact Hz.
Qed.

Lemma Forall2_firstn {A B} (R : A -> B -> Prop) n : forall l l', Forall2 R l l' -> Forall2 R (firstn n l) (firstn n l').
Proof. induction n as [|n IH]; intros l l' HF; [constructor|]. destruct HF; cbn [firstn]; constructor; auto. Qed.

Definition key_answer (k : bytes) (recs : list msg) : obs msg :=
  match last_opt (filter (has_key k) recs) with Some m => OOk m | None => OErr CNotFound end.

Lemma key_answer_app k a b :
  key_answer k (a ++ b) = match last_opt (filter (has_key k) b) with Some m => OOk m | None => key_answer k a end.
Proof.
  unfold key_answer. rewrite filter_app. destruct (filter (has_key k) b) as [|x r] eqn:Eb.
  - now rewrite app_nil_r.
  - rewrite last_opt_app2 by discriminate. destruct (last_opt (x :: r)) eqn:El; [reflexivity|].
    apply last_opt_none in El. discriminate.
Qed.

Lemma get_by_key_back_spec c k : forall n st,
  KInv (cparams c) st -> opened st = Some c -> ckeys c = true -> (n <= length (segs st))%nat ->
  obs_get (get_by_key_back H c st k n (Z.of_nat n - 1)) = key_answer k (all_recs (firstn n (segs st))).
Proof.
  induction n as [|n IH]; intros st HK Hc Hkeys Hn; [reflexivity|].
  cbn [get_by_key_back]. replace (Z.of_nat (S n) - 1) with (Z.of_nat n) by lia.
  pose proof HK as (HI & HX & Hp).
  assert (Hz : exists s, znth (segs st) (Z.of_nat n) = Some s).
  { unfold znth. destruct (Z.of_nat n <? 0) eqn:E; [lia|]. rewrite Nat2Z.id.
    destruct (nth_error (segs st) n) eqn:En; [eauto|]. apply nth_error_None in En. lia. }
  destruct Hz as (s & Hs).
  destruct (with_index_ok H c st (Z.of_nat n) s HI Hc Hs) as (st1 & s' & items & Hw & Hok & Hsh & Hst & HI1 & Hs1).
  rewrite Hw. cbn [bind]. destruct (with_index_exact c st _ st1 s' items HK Hc Hw) as (Hex & HK1).
  assert (Hpk : pkeys (cparams c) = true) by exact Hkeys.
  rewrite (reader_get_by_key_spec (cparams c) s' items k Hpk Hex).
  rewrite (firstn_succ_znth _ _ _ Hs). rewrite all_recs_app. rewrite key_answer_app.
  destruct Hsh as (Hr & _). unfold all_recs at 1. cbn [map concat]. rewrite app_nil_r. rewrite <- Hr.
  destruct (last_opt (filter (has_key k) (srecs s'))) as [m|]; [reflexivity|].
  replace (Z.of_nat n - 1) with (Z.of_nat n - 1) by lia.
  destruct Hst as (HF2 & Ho1 & _).
  rewrite (IH st1 HK1 ltac:(congruence) Hkeys ltac:(rewrite <- (Forall2_len _ _ _ HF2); lia)).
  f_equal. apply all_recs_shape. apply Forall2_firstn. exact HF2.
Qed.

(* GetByKey on any state of a session with the key index: the live message with the greatest offset whose
   key equals the argument byte for byte, ErrNotFound if there is none; ErrNoIndex without the key index *)
Theorem log_get_by_key_correct c st k :
  KInv (cparams c) st -> opened st = Some c ->
  check_get_by_key (abs st) (ckeys c) k (obs_get (log_get_by_key H st k)) = true.
Proof.
  intros HK Hc. unfold log_get_by_key, get_cfg. rewrite Hc. cbn [bind]. unfold check_get_by_key.
  destruct (ckeys c) eqn:Hkeys; cbn [negb]; [|reflexivity].
  replace (zlen (segs st) - 1) with (Z.of_nat (length (segs st)) - 1) by reflexivity.
  rewrite (get_by_key_back_spec c k (length (segs st)) st HK Hc Hkeys (le_n _)).
  rewrite firstn_all. unfold key_answer, abs. cbn [live].
  destruct (last_opt (filter (has_key k) (all_recs (segs st)))); [apply msg_eqb_refl|reflexivity].
Qed.


(* ---------- ConsumeByKey on one segment *)

Definition kcand (k : bytes) (off : Z) (recs : list msg) : list msg :=
  filter (fun m => negb (moff m <? off) && has_key k m) recs.

Lemma cbk_loop_spec s k off : forall (pl : list (Z * msg)) room,
  (forall pm, In pm pl -> read_at s (fst pm) = Ok (snd pm)) ->
  cbk_loop s (map fst pl) k off room = Ok (firstn (Nat.max 1 room) (kcand k off (map snd pl))).
Proof.
  induction pl as [|pm pl IH]; intros room Hr.
  - cbn [map cbk_loop kcand filter]. unfold kcand. cbn [filter]. now rewrite firstn_nil.
  - cbn [map cbk_loop]. rewrite (Hr pm (or_introl eq_refl)). cbn [bind].
    assert (Hr' : forall x, In x pl -> read_at s (fst x) = Ok (snd x)) by (intros x Hx; apply Hr; now right).
    unfold kcand. cbn [filter]. unfold has_key at 1.
    destruct (moff (snd pm) <? off) eqn:Eo; cbn [negb andb]; [apply IH; exact Hr'|].
    destruct (bytes_eqb k (mkey (snd pm))) eqn:Ek; [|apply IH; exact Hr'].
    destruct room as [|[|room']].
    + reflexivity.
    + reflexivity.
    + rewrite (IH (S room') Hr'). cbn [bind]. reflexivity.
Qed.

Lemma firstn_same {A} (l : list A) n1 n2 : n1 = n2 \/ (length l <= n1 /\ length l <= n2)%nat -> firstn n1 l = firstn n2 l.
Proof. intros [->|[H1 H2]]; [reflexivity|]. now rewrite !firstn_all2. Qed.

Lemma filter_length_le {A} (f : A -> bool) l : (length (filter f l) <= length l)%nat.
Proof. induction l as [|x l IH]; cbn; [lia|]. destruct (f x); cbn; lia. Qed.

Theorem reader_consume_by_key_spec p s items k off max :
  pkeys p = true -> exact_items p s items -> seg_ok s items -> off <> OffsetNewest ->
  let ms := firstn (Z.to_nat (Z.max max 1)) (kcand k off (srecs s)) in
  reader_consume_by_key H s items k off max =
  Ok (match last_opt ms with Some m => moff m + 1 | None => recs_next s end, ms).
Proof.
  intros Hk Hex Hok Hnew ms. pose proof (idx_next_recs s items Hok) as Hnx. destruct Hex as (ts0 & ->).
  unfold reader_consume_by_key. destruct (off =? OffsetNewest) eqn:En; [lia|]. unfold keys_lookup.
  rewrite (lookup_derive p (sver s) (H k) (srecs s) Hk).
  set (pl := placed (sver s) (hdr_size (sver s)) (srecs s)).
  set (hm := filter (fun pm => H (mkey (snd pm)) =? H k) pl).
  assert (Hcand : kcand k off (map snd hm) = kcand k off (srecs s)).
  { unfold hm. rewrite (filter_map_snd (fun m => H (mkey m) =? H k) pl). unfold pl. rewrite placed_snd.
    unfold kcand. apply filter_filter_imp. intros m E. apply andb_prop in E. destruct E as [_ E].
    unfold has_key in E. apply bytes_eqb_eq in E. rewrite <- E. apply Z.eqb_refl. }
  destruct (map fst hm) as [|p0 pr] eqn:Emap.
  - assert (hm = []) by (destruct hm; [reflexivity|discriminate]).
    assert (Hc0 : kcand k off (srecs s) = []) by (rewrite <- Hcand, H0; reflexivity).
    unfold ms. rewrite Hc0. rewrite firstn_nil. cbn [last_opt]. now rewrite Hnx.
  - rewrite <- Emap.
    rewrite cbk_loop_spec.
    2:{ intros pm Hin. unfold hm in Hin. apply filter_In in Hin. destruct Hin as [Hin _]. destruct pm as [pos m].
        unfold read_at. apply read_at_placed. exact Hin. }
    cbn [bind]. rewrite Hcand.
    assert (Hsame : firstn (Nat.max 1 (Z.to_nat (Z.min max (zlen (map fst hm))))) (kcand k off (srecs s)) = ms).
    { unfold ms. apply firstn_same.
      assert (Hlen : (length (kcand k off (srecs s)) <= length hm)%nat).
      { rewrite <- Hcand. unfold kcand. rewrite <- (map_length snd hm). apply filter_length_le. }
      unfold zlen. rewrite map_length.
      destruct (Z.le_gt_cases (Z.of_nat (length hm)) max); [right|left]; lia. }
    rewrite Hsame. destruct (last_opt ms) eqn:El; [reflexivity|]. apply last_opt_none in El. rewrite El, Hnx. reflexivity.
Qed.

End KeyProofs.
