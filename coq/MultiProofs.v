(* MultiProofs.v — C12/C15/C16: DeleteMulti over a set of live offsets removes all of them and nothing else,
   and hence the Trim...Multi / Compact... helpers (find, then DeleteMulti) remove exactly what they select. *)
From KV Require Import Base Model Helpers ListAux SearchProofs SegProofs ReaderProofs Spec SpecFacts LogInv
     ConsumeProofs GetProofs AbsFacts PublishProofs DeleteProofs ReadsPreserve ScanProofs TrimProofs CompactProofs TimeProofs.
From Coq Require Import ZifyBool ZifyNat.

Section MultiProofs.
Variable H : bytes -> Z.

Lemma zmin_list_in l : l <> [] -> In (zmin_list l) l.
Proof.
  induction l as [|x l IH]; [congruence|]. intros _. destruct l as [|y l']; [now left|].
  change (zmin_list (x :: y :: l')) with (Z.min x (zmin_list (y :: l'))).
  destruct (Z.min_spec x (zmin_list (y :: l'))) as [[_ ->]|[_ ->]]; [now left|]. right. apply IH. discriminate.
Qed.

Lemma zmin_list_le l x : In x l -> zmin_list l <= x.
Proof.
  induction l as [|y l IH]; [contradiction|]. intros Hin. destruct l as [|z l'].
  - destruct Hin as [->|[]]. cbn. lia.
  - change (zmin_list (y :: z :: l')) with (Z.min y (zmin_list (z :: l'))). destruct Hin as [->|Hin]; [lia|].
    specialize (IH Hin). lia.
Qed.

Lemma filter_length_le' {A} (f : A -> bool) l : (length (filter f l) <= length l)%nat.
Proof. induction l as [|x l IH]; cbn; [lia|]. destruct (f x); cbn; lia. Qed.

Lemma filter_filter' {A} (f g : A -> bool) l : filter f (filter g l) = filter (fun x => g x && f x) l.
Proof. induction l as [|x l IH]; [reflexivity|]. cbn [filter]. destruct (g x); cbn [filter andb]; [destruct (f x); now rewrite IH|exact IH]. Qed.

(* the segment Delete rewrites holds the live message with the lowest requested offset *)
Lemma lowest_in_selected st off i m :
  Inv st -> In m (live (abs st)) -> moff m = off -> seg_get (bases (segs st)) off = Ok i ->
  exists s, znth (segs st) i = Some s /\ In m (srecs s).
Proof.
  intros HI Hm Hoff Hsg. pose proof HI as (Hne & HF & Hch & _).
  unfold abs in Hm. cbn [live] in Hm. destruct (in_all_recs _ _ Hm) as (sj & Hsj & Hmj).
  destruct (in_znth _ _ Hsj) as [j Hj]. pose proof (znth_some _ _ _ Hj) as Hjr.
  assert (Hsj_inv : seg_inv sj) by (eapply Forall_znth; eauto).
  pose proof (seg_offsets_ge_base sj m Hsj_inv Hmj) as Hge.
  assert (Hoff0 : 0 <= off) by (destruct Hsj_inv as (_ & Hnn & _); specialize (Hnn m Hmj); lia).
  assert (Hbne : bases (segs st) <> []) by (unfold bases; destruct (segs st); [congruence|discriminate]).
  pose proof (seg_get_spec (bases (segs st)) off Hbne (bases_sorted _ Hch) (fun b Hb => bases_nonneg _ b HF Hb) Hoff0) as Hspec.
  destruct (bases (segs st)) as [|first rest] eqn:Eb; [congruence|]. rewrite <- Eb in *.
  (* not before the first segment: the first base is below every live offset *)
  assert (Hfirst : first <= off).
  { assert (Hz0 : znth (bases (segs st)) 0 = Some first) by (rewrite Eb; reflexivity).
    destruct (Z.eq_dec j 0) as [->|Hj0].
    - rewrite znth_bases, Hj in Hz0. cbn in Hz0. injection Hz0 as <-. lia.
    - pose proof (bases_sorted _ Hch) as Hs. assert (Hzj : znth (bases (segs st)) j = Some (sbase sj)) by (rewrite znth_bases, Hj; reflexivity).
      pose proof (Hs 0 j first (sbase sj) Hz0 Hzj ltac:(lia)). lia. }
  destruct (off <? first) eqn:E1; [lia|]. destruct Hspec as (r & b & Hr & Hzr & Hble & Hafter).
  rewrite Hsg in Hr. injection Hr as <-.
  assert (Hij : i = j).
  { destruct (Z.lt_trichotomy i j) as [Hlt|[Heq|Hgt]]; [|exact Heq|].
    - assert (Hzj : znth (bases (segs st)) j = Some (sbase sj)) by (rewrite znth_bases, Hj; reflexivity).
      pose proof (Hafter j (sbase sj) Hlt Hzj). lia.
    - (* i after j: then off < base_i by the chain, against base_i <= off *)
      exfalso. rewrite znth_bases in Hzr. destruct (znth (segs st) i) as [si|] eqn:Hi; [|discriminate]. cbn in Hzr. injection Hzr as <-.
      destruct (znth_split _ _ _ Hj) as (pre & post & Hsplit & Hpre).
      assert (Hin_post : In si post).
      { assert (Hi' : znth (pre ++ sj :: post) (zlen pre + (i - zlen pre)) = Some si)
          by (replace (zlen pre + (i - zlen pre)) with i by lia; rewrite <- Hsplit; exact Hi).
        rewrite znth_app_r in Hi' by lia. rewrite znth_cons_pos in Hi' by lia. eapply znth_in; eauto. }
      rewrite Hsplit in Hch. apply chain_ok_app_r in Hch. pose proof (chain_offsets_lt sj post si m Hch Hin_post Hmj). lia. }
  subst j. exists sj. split; assumption.
Qed.

(* one pass makes progress: when the lowest requested offset is live, Delete succeeds and deletes it *)
Lemma log_delete_progress c st offs m :
  Inv st -> opened st = Some c -> cro c = false -> offs <> [] ->
  In m (live (abs st)) -> moff m = zmin_list offs ->
  exists st' deleted size, log_delete H st offs = Ok (st', (deleted, size)) /\ In m deleted.
Proof.
  intros HI Hc Hro Hne Hm Hoff. pose proof HI as (_ & HF & _).
  assert (Hm0 : 0 <= moff m).
  { unfold abs in Hm. cbn [live] in Hm. destruct (in_all_recs _ _ Hm) as (s & Hs & Hms). rewrite Forall_forall in HF.
    destruct (HF s Hs) as (_ & Hnn & _). now apply Hnn. }
  unfold log_delete, get_cfg. rewrite Hc. cbn [bind]. rewrite Hro.
  destruct offs as [|o0 orest]; [congruence|]. set (offs := o0 :: orest) in *.
  destruct (zmin_list offs <? 0) eqn:E0; [lia|].
  assert (Hbne : bases (segs st) <> []) by (destruct HI as (Hn & _); unfold bases; destruct (segs st); [congruence|discriminate]).
  destruct (seg_get (bases (segs st)) (zmin_list offs)) as [i|e] eqn:Esg.
  - cbn [bind]. destruct (lowest_in_selected st (zmin_list offs) i m HI Hm Hoff Esg) as (s & Hs & Hms). rewrite Hs.
    assert (Hs_inv : seg_inv s) by (eapply Forall_znth; eauto). rewrite (seg_inv_open_log s Hs_inv). cbn [bind].
    assert (Hdel : In m (filter (fun x => zmem (moff x) offs) (srecs s))).
    { apply filter_In. split; [exact Hms|]. apply zmem_in. rewrite Hoff. apply zmin_list_in. discriminate. }
    destruct (filter (fun x => zmem (moff x) offs) (srecs s)) as [|d0 dr] eqn:Ed; [contradiction|].
    destruct (is_last st i).
    + destruct (filter (fun x => negb (zmem (moff x) offs)) (srecs s)) as [|s0 sr]; [eexists _, _, _; split; [reflexivity|exact Hdel]|].
      match goal with |- context [if ?b then _ else _] => destruct b end; eexists _, _, _; (split; [reflexivity|exact Hdel]).
    + destruct (filter (fun x => negb (zmem (moff x) offs)) (srecs s)); eexists _, _, _; (split; [reflexivity|exact Hdel]).
  - (* seg_get cannot fail on a live offset *)
    exfalso. pose proof HI as (_ & _ & Hch & _).
    pose proof (seg_get_spec (bases (segs st)) (zmin_list offs) Hbne (bases_sorted _ Hch) (fun b Hb => bases_nonneg _ b HF Hb) ltac:(lia)) as Hspec.
    destruct (bases (segs st)) as [|first rest] eqn:Eb; [congruence|]. rewrite <- Eb in *.
    unfold abs in Hm. cbn [live] in Hm. destruct (in_all_recs _ _ Hm) as (sj & Hsj & Hmj).
    destruct (in_znth _ _ Hsj) as [j Hj]. pose proof (znth_some _ _ _ Hj) as Hjr.
    assert (Hsj_inv : seg_inv sj) by (eapply Forall_znth; eauto).
    pose proof (seg_offsets_ge_base sj m Hsj_inv Hmj) as Hge.
    assert (Hfirst : first <= zmin_list offs).
    { assert (Hz0 : znth (bases (segs st)) 0 = Some first) by (rewrite Eb; reflexivity).
      destruct (Z.eq_dec j 0) as [->|Hj0].
      - rewrite znth_bases, Hj in Hz0. cbn in Hz0. injection Hz0 as <-. lia.
      - pose proof (bases_sorted _ Hch) as Hs. assert (Hzj : znth (bases (segs st)) j = Some (sbase sj)) by (rewrite znth_bases, Hj; reflexivity).
        pose proof (Hs 0 j first (sbase sj) Hz0 Hzj ltac:(lia)). lia. }
    destruct (zmin_list offs <? first) eqn:E1; [lia|]. destruct Hspec as (r & b & Hr & _). rewrite Esg in Hr. discriminate.
Qed.


Lemma existsb_offs (deleted : list msg) x :
  existsb (fun d => moff d =? moff x) deleted = zmem (moff x) (map moff deleted).
Proof.
  unfold zmem. induction deleted as [|d l IH]; [reflexivity|]. cbn [existsb map]. rewrite IH. f_equal. apply Z.eqb_sym.
Qed.

(* DeleteMulti over live offsets: every pass deletes the requested messages of one more segment; at the end
   exactly the requested messages are gone, NextOffset is unchanged, and no error is reported *)
Theorem delete_multi_live c : forall fuel st remaining accm accs,
  Inv st -> opened st = Some c -> cro c = false ->
  (forall o, In o remaining -> exists m, In m (live (abs st)) /\ moff m = o) ->
  (length remaining < fuel)%nat ->
  exists st' del size,
    delete_multi H fuel st remaining accm accs = (st', accm ++ del, accs + size, None) /\
    Inv st' /\ opened st' = Some c /\ anext (abs st') = anext (abs st) /\
    live (abs st') = remove_offs (live (abs st)) remaining /\
    (forall x, In x del <-> In x (live (abs st)) /\ In (moff x) remaining).
Proof.
  induction fuel as [|f IH]; intros st remaining accm accs HI Hc Hro Hlive Hf; [lia|]. cbn [delete_multi].
  destruct remaining as [|o0 orest].
  - exists st, [], 0. rewrite app_nil_r, Z.add_0_r. split; [reflexivity|]. split; [exact HI|]. split; [exact Hc|]. split; [reflexivity|].
    split; [unfold remove_offs; symmetry; apply filter_all_true; intros; reflexivity|]. intros x. split; [intros []|intros [_ []]].
  - cbv iota. set (remaining := o0 :: orest) in *. assert (Hne : remaining <> []) by (unfold remaining; discriminate).
    destruct (Hlive _ (zmin_list_in remaining Hne)) as (m & Hm & Hmo).
    destruct (log_delete_progress c st remaining m HI Hc Hro Hne Hm Hmo) as (st1 & deleted & sz & Ed & Hmd).
    rewrite Ed.
    destruct (log_delete_ok H st remaining st1 deleted sz c HI Hc Ed) as [(-> & _)|(HI1 & Ho1 & An1 & Al1 & src & Hsrc & Hdel & _)]; [contradiction|].
    destruct deleted as [|d0 dr] eqn:Edel; [contradiction|]. rewrite <- Edel in *.
    set (rem := filter (fun o => negb (zmem o (map moff deleted))) remaining).
    destruct (live_facts st HI) as (Hinc & _).
    assert (Hdel_sub : forall x, In x deleted -> In x (live (abs st)) /\ In (moff x) remaining).
    { intros x Hx. rewrite Hdel in Hx. unfold del_of in Hx. apply filter_In in Hx. destruct Hx as [Hxs Hz]. split.
      - unfold abs. cbn [live]. eapply all_recs_in_seg'; eauto.
      - now apply zmem_in. }
    assert (Hrem_live : forall o, In o rem -> exists x, In x (live (abs st1)) /\ moff x = o).
    { intros o Ho. unfold rem in Ho. apply filter_In in Ho. destruct Ho as [Hor Hnd].
      destruct (Hlive o Hor) as (x & Hx & Hxo). exists x. split; [|exact Hxo]. rewrite Al1. unfold remove_msgs. apply filter_In. split; [exact Hx|].
      rewrite existsb_offs, Hxo. exact Hnd. }
    assert (Hrem_len : (length rem < length remaining)%nat).
    { unfold rem. assert (Hin : In (moff m) remaining) by (rewrite Hmo; now apply zmin_list_in).
      assert (Hout : negb (zmem (moff m) (map moff deleted)) = false).
      { apply negb_false_iff. apply zmem_in. apply in_map. exact Hmd. }
      clear -Hin Hout. induction remaining as [|o r IH]; [contradiction|]. cbn [filter length].
      destruct Hin as [->|Hin].
      - rewrite Hout. pose proof (filter_length_le' (fun o0 => negb (zmem o0 (map moff deleted))) r). lia.
      - specialize (IH Hin). destruct (negb (zmem o (map moff deleted))); cbn [length]; lia. }
    destruct (IH st1 rem (accm ++ deleted) (accs + sz) HI1 ltac:(congruence) Hro Hrem_live ltac:(lia))
      as (st' & del & size & Em & HI' & Ho' & An' & Al' & Hd').
    fold rem. rewrite Em. exists st', (deleted ++ del), (sz + size).
    split; [rewrite app_assoc; f_equal; f_equal; lia|]. split; [exact HI'|]. split; [exact Ho'|]. split; [congruence|].
    split.
    + rewrite Al', Al1. unfold remove_offs, remove_msgs. rewrite filter_filter'. apply filter_ext. intros x.
      rewrite existsb_offs. unfold rem.
      destruct (zmem (moff x) (map moff deleted)) eqn:Ez; cbn [negb andb].
      * apply zmem_in in Ez. apply in_map_iff in Ez. destruct Ez as (d & Hdo & Hd). destruct (Hdel_sub d Hd) as [_ Hr].
        rewrite Hdo in Hr. apply zmem_in in Hr. now rewrite Hr.
      * destruct (zmem (moff x) remaining) eqn:Er.
        -- assert (In (moff x) (filter (fun o => negb (zmem o (map moff deleted))) remaining)).
           { apply filter_In. split; [now apply zmem_in|]. now rewrite Ez. }
           apply zmem_in in H0. now rewrite H0.
        -- destruct (zmem (moff x) (filter (fun o => negb (zmem o (map moff deleted))) remaining)) eqn:Ef; [|reflexivity].
           apply zmem_in in Ef. apply filter_In in Ef. destruct Ef as [Ef _]. apply zmem_in in Ef. congruence.
    + intros x. rewrite in_app_iff, Hd'. split.
      * intros [Hx|[Hx Hr]]; [now apply Hdel_sub|]. split.
        -- rewrite Al1 in Hx. unfold remove_msgs in Hx. apply filter_In in Hx. tauto.
        -- unfold rem in Hr. apply filter_In in Hr. tauto.
      * intros [Hx Hr]. destruct (zmem (moff x) (map moff deleted)) eqn:Ez.
        -- left. apply zmem_in in Ez. apply in_map_iff in Ez. destruct Ez as (d & Hdo & Hd).
           destruct (Hdel_sub d Hd) as [HdL _]. rewrite (inc_offset_inj _ x d Hinc Hx HdL ltac:(congruence)). exact Hd.
        -- right. split.
           ++ rewrite Al1. unfold remove_msgs. apply filter_In. split; [exact Hx|]. now rewrite existsb_offs, Ez.
           ++ unfold rem. apply filter_In. split; [exact Hr|now rewrite Ez].
Qed.


(* deleting offsets none of which is live deletes nothing and changes nothing (in particular: deleting again) *)
Theorem log_delete_dead c st offs st' deleted size :
  Inv st -> opened st = Some c ->
  (forall m, In m (live (abs st)) -> ~ In (moff m) offs) ->
  log_delete H st offs = Ok (st', (deleted, size)) -> deleted = [] /\ st' = st /\ size = 0.
Proof.
  intros HI Hc Hdead E. destruct (log_delete_ok H st offs st' deleted size c HI Hc E) as [Hd|(_ & _ & _ & _ & src & Hsrc & Hdel & _)]; [exact Hd|].
  assert (Hnil : deleted = []).
  { rewrite Hdel. unfold del_of. apply filter_all_false. intros x Hx. destruct (zmem (moff x) offs) eqn:Ez; [|reflexivity].
    exfalso. apply (Hdead x); [unfold abs; cbn [live]; eapply all_recs_in_seg'; eauto|now apply zmem_in]. }
  clear Hdel. subst deleted. unfold log_delete, get_cfg in E. rewrite Hc in E. cbn [bind] in E. destruct (cro c); [discriminate|].
  destruct offs as [|o0 orest]; [injection E as <- <-; repeat split; reflexivity|].
  destruct (zmin_list (o0 :: orest) <? 0); [discriminate|]. destruct (seg_get _ _) as [i|]; [|discriminate]. cbn [bind] in E.
  destruct (znth (segs st) i) as [s|]; [|discriminate]. destruct (open_log_reader s); [|discriminate]. cbn [bind] in E.
  destruct (filter (fun m => zmem (moff m) (o0 :: orest)) (srecs s)) as [|d0 dr] eqn:Ed.
  - injection E as <- <-. repeat split; reflexivity.
  - exfalso. destruct (is_last st i).
    + destruct (filter (fun m => negb (zmem (moff m) (o0 :: orest))) (srecs s)); [injection E as _ E _; discriminate|].
      match type of E with context [if ?b then _ else _] => destruct b end; injection E as _ E _; discriminate.
    + destruct (filter (fun m => negb (zmem (moff m) (o0 :: orest))) (srecs s)); injection E as _ E _; discriminate.
Qed.

(* ---------- find, then DeleteMulti *)

Theorem trim_multi_spec c (find : lstate -> res (lstate * list Z)) st st1 offs :
  Inv st -> opened st = Some c -> cro c = false ->
  find st = Ok (st1, offs) -> Inv st1 -> abs st1 = abs st -> opened st1 = Some c ->
  (forall o, In o offs -> exists m, In m (live (abs st)) /\ moff m = o) ->
  exists st' del size,
    trim_multi H find st = (st', del, size, None) /\ Inv st' /\ anext (abs st') = anext (abs st) /\
    live (abs st') = remove_offs (live (abs st)) offs /\
    (forall x, In x del <-> In x (live (abs st)) /\ In (moff x) offs).
Proof.
  intros HI Hc Hro Hf HI1 HA1 Hc1 Hlive. unfold trim_multi, log_delete_multi. rewrite Hf.
  destruct (delete_multi_live c (S (length offs)) st1 offs [] 0 HI1 Hc1 Hro ltac:(rewrite HA1; exact Hlive) ltac:(lia))
    as (st' & del & size & E & HI' & _ & An & Al & Hd).
  rewrite E. exists st', del, size. cbn [app]. rewrite Z.add_0_l. split; [reflexivity|]. split; [exact HI'|].
  rewrite HA1 in *. split; [exact An|]. split; [exact Al|exact Hd].
Qed.

Lemma offs_of_sublist_live (L sel : list msg) : (forall x, In x sel -> In x L) ->
  forall o, In o (map moff sel) -> exists m, In m L /\ moff m = o.
Proof. intros Hsub o Ho. apply in_map_iff in Ho. destruct Ho as (x & Hxo & Hx). exists x. split; [now apply Hsub|exact Hxo]. Qed.

(* TrimByOffset: afterwards no live offset below the bound; everything else untouched *)
Theorem trim_by_offset_spec c st before :
  Inv st -> opened st = Some c -> cro c = false -> before <> OffsetOldest -> before <> OffsetNewest ->
  exists st' del size,
    trim_multi H (fun s => find_by_offset H s before) st = (st', del, size, None) /\ Inv st' /\
    anext (abs st') = anext (abs st) /\
    live (abs st') = filter (fun m => before <=? moff m) (live (abs st)).
Proof.
  intros HI Hc Hro Ho Hn. destruct (find_by_offset_spec H st before HI) as (st1 & Ef & HI1 & HA1).
  replace (before =? OffsetOldest) with false in Ef by lia. replace (before =? OffsetNewest) with false in Ef by lia.
  assert (Hc1 : opened st1 = Some c).
  { unfold find_by_offset in Ef. replace (before =? OffsetOldest) with false in Ef by lia.
    destruct (log_next_ok H st HI) as (sa & En & HIa & HAa & Hoa). rewrite En in Ef. cbn [bind] in Ef.
    replace (before =? OffsetNewest) with false in Ef by lia.
    match type of Ef with (do r2 <- ?sc; Ok r2) = _ => destruct sc as [[s2 a2]|] eqn:Esc; [|discriminate] end.
    cbn [bind] in Ef. injection Ef as <- _. destruct (scan_loop_opened H _ _ _ _ _ _ _ _ _ HIa Esc) as (Hop & _). congruence. }
  destruct (trim_multi_spec c (fun s => find_by_offset H s before) st st1 _ HI Hc Hro Ef HI1 HA1 Hc1) as (st' & del & size & E & HI' & An & Al & _).
  - apply offs_of_sublist_live. intros x Hx. apply filter_In in Hx. tauto.
  - exists st', del, size. split; [exact E|]. split; [exact HI'|]. split; [exact An|]. rewrite Al.
    unfold remove_offs. apply filter_ext_in. intros x Hx.
    destruct (zmem (moff x) (map moff (filter (fun m => moff m <? before) (live (abs st))))) eqn:Ez.
    + apply zmem_in in Ez. apply in_map_iff in Ez. destruct Ez as (y & Hyo & Hy). apply filter_In in Hy. cbn. lia.
    + cbn. destruct (before <=? moff x) eqn:El; [reflexivity|]. exfalso.
      assert (In (moff x) (map moff (filter (fun m => moff m <? before) (live (abs st))))).
      { apply in_map. apply filter_In. split; [exact Hx|lia]. }
      apply zmem_in in H0. congruence.
Qed.


Lemma examined_prefix before L : exists R, L = examined before L ++ R.
Proof.
  unfold examined. induction L as [|x L IH]; [exists []; reflexivity|]. cbn [take_while].
  destruct (go_on (newer before) x); [|exists (x :: L); reflexivity]. destruct IH as (R & HR). exists R. cbn [app]. now rewrite <- HR.
Qed.

Lemma find_updates_opened st before st1 offs : Inv st -> find_updates H st before = Ok (st1, offs) -> opened st1 = opened st.
Proof.
  intros HI Ef. unfold find_updates in Ef. destruct (log_next_ok H st HI) as (sa & En & HIa & HAa & Hoa). rewrite En in Ef. cbn [bind] in Ef.
  match type of Ef with (do r2 <- ?sc; _) = _ => destruct sc as [[s2 a2]|] eqn:Esc; [|discriminate] end.
  cbn [bind] in Ef. injection Ef as <- _. destruct (scan_loop_opened H _ _ _ _ _ _ _ _ _ HIa Esc) as (Hop & _). congruence.
Qed.

Lemma find_deletes_opened st before st1 offs : Inv st -> find_deletes H st before = Ok (st1, offs) -> opened st1 = opened st.
Proof.
  intros HI Ef. unfold find_deletes in Ef. destruct (log_next_ok H st HI) as (sa & En & HIa & HAa & Hoa). rewrite En in Ef. cbn [bind] in Ef.
  match type of Ef with (do r2 <- ?sc; _) = _ => destruct sc as [[s2 a2]|] eqn:Esc; [|discriminate] end.
  cbn [bind] in Ef. injection Ef as <- _. destruct (scan_loop_opened H _ _ _ _ _ _ _ _ _ HIa Esc) as (Hop & _). congruence.
Qed.

(* CompactUpdates: for every key the last live message is the same before and after; only messages not newer
   than the cut-off that have a later message with the same key are removed; NextOffset is unchanged *)
Theorem compact_updates_spec c st before :
  Inv st -> opened st = Some c -> cro c = false ->
  exists st' del size,
    trim_multi H (fun s => find_updates H s before) st = (st', del, size, None) /\ Inv st' /\
    anext (abs st') = anext (abs st) /\
    (forall k, latest k (live (abs st')) = latest k (live (abs st))) /\
    (forall x, In x del -> In x (live (abs st)) /\ has_later (examined before (live (abs st))) (moff x) /\ mtime x <= before) /\
    (forall x, In x (live (abs st)) -> ~ In x del -> In x (live (abs st'))).
Proof.
  intros HI Hc Hro. destruct (find_updates_spec H st before HI) as (st1 & Ef & HI1 & HA1).
  pose proof (find_updates_opened st before st1 _ HI Ef) as Hop.
  set (L := live (abs st)) in *. set (P := examined before L) in *.
  destruct (upd_sound P) as [_ Hsound]. cbv zeta in Hsound. set (offs := fst (fold_left upd_g P ([], []))) in *.
  destruct (examined_prefix before L) as (R & HLR). fold P in HLR.
  destruct (live_facts st HI) as (Hinc & _). fold L in Hinc.
  assert (Hlive : forall o, In o offs -> exists m, In m L /\ moff m = o).
  { intros o Ho. destruct (Hsound o Ho) as (pre & m & mid & m' & post & HP & Hm & _). exists m. split; [|exact Hm].
    rewrite HLR, HP. apply in_or_app. left. apply in_or_app. right. now left. }
  destruct (trim_multi_spec c (fun s => find_updates H s before) st st1 offs HI Hc Hro Ef HI1 HA1 ltac:(congruence) Hlive)
    as (st' & del & size & E & HI' & An & Al & Hd).
  exists st', del, size. split; [exact E|]. split; [exact HI'|]. split; [exact An|]. fold L in Al, Hd. split; [|split].
  - intros k. rewrite Al. apply (updates_keep_latest H L P R offs Hinc HLR Hsound).
  - intros x Hx. apply Hd in Hx. destruct Hx as [HxL Hxo]. split; [exact HxL|]. split; [now apply Hsound|].
    destruct (Hsound _ Hxo) as (pre & m & mid & m' & post & HP & Hm & _).
    assert (HmL : In m L) by (rewrite HLR, HP; apply in_or_app; left; apply in_or_app; right; now left).
    rewrite (inc_offset_inj L x m Hinc HxL HmL ltac:(congruence)).
    assert (HmP : In m P) by (rewrite HP; apply in_or_app; right; now left).
    unfold P, examined in HmP. clear -HmP. induction L as [|y L IH]; [contradiction|]. cbn [take_while] in HmP.
    destruct (go_on (newer before) y) eqn:Eg; [|contradiction]. destruct HmP as [->|HmP]; [unfold go_on, newer in Eg; lia|now apply IH].
  - intros x HxL Hnd. rewrite Al. unfold remove_offs. apply filter_In. split; [exact HxL|].
    destruct (zmem (moff x) offs) eqn:Ez; [|reflexivity]. exfalso. apply Hnd. apply Hd. split; [exact HxL|now apply zmem_in].
Qed.

(* CompactDeletes: the latest VALUE of every key is the same before and after; only value-less messages not
   newer than the cut-off that are the first message of their key are removed *)
Theorem compact_deletes_spec c st before :
  Inv st -> opened st = Some c -> cro c = false ->
  exists st' del size,
    trim_multi H (fun s => find_deletes H s before) st = (st', del, size, None) /\ Inv st' /\
    anext (abs st') = anext (abs st) /\
    (forall k, latest_value k (live (abs st')) = latest_value k (live (abs st))) /\
    (forall x, In x del -> In x (live (abs st)) /\ first_of_key (examined before (live (abs st))) (moff x)) /\
    (forall x, In x (live (abs st)) -> ~ In x del -> In x (live (abs st'))).
Proof.
  intros HI Hc Hro. destruct (find_deletes_spec H st before HI) as (st1 & Ef & HI1 & HA1).
  pose proof (find_deletes_opened st before st1 _ HI Ef) as Hop.
  set (L := live (abs st)) in *. set (P := examined before L) in *.
  destruct (del_sound P) as [_ Hsound]. cbv zeta in Hsound. set (offs := fst (fold_left del_g P ([], []))) in *.
  destruct (examined_prefix before L) as (R & HLR). fold P in HLR.
  destruct (live_facts st HI) as (Hinc & _). fold L in Hinc.
  assert (Hlive : forall o, In o offs -> exists m, In m L /\ moff m = o).
  { intros o Ho. destruct (Hsound o Ho) as (pre & m & post & HP & Hm & _). exists m. split; [|exact Hm].
    rewrite HLR, HP. apply in_or_app. left. apply in_or_app. right. now left. }
  destruct (trim_multi_spec c (fun s => find_deletes H s before) st st1 offs HI Hc Hro Ef HI1 HA1 ltac:(congruence) Hlive)
    as (st' & del & size & E & HI' & An & Al & Hd).
  exists st', del, size. split; [exact E|]. split; [exact HI'|]. split; [exact An|]. fold L in Al, Hd. split; [|split].
  - intros k. rewrite Al. apply (deletes_keep_latest_value H L P R offs Hinc HLR Hsound).
  - intros x Hx. apply Hd in Hx. destruct Hx as [HxL Hxo]. split; [exact HxL|now apply Hsound].
  - intros x HxL Hnd. rewrite Al. unfold remove_offs. apply filter_In. split; [exact HxL|].
    destruct (zmem (moff x) offs) eqn:Ez; [|reflexivity]. exfalso. apply Hnd. apply Hd. split; [exact HxL|now apply zmem_in].
Qed.

End MultiProofs.

Section TrimCount.
Variable H : bytes -> Z.

Lemma remove_first_k : forall k L, inc L -> remove_offs L (firstn k (map moff L)) = skipn k L.
Proof.
  induction k as [|k IH]; intros L Hinc.
  - cbn [firstn skipn]. unfold remove_offs. apply filter_all_true. intros; reflexivity.
  - destruct L as [|x r]; [reflexivity|]. destruct Hinc as [Hx Hr]. cbn [map firstn skipn]. unfold remove_offs. cbn [filter].
    assert (Hhd : zmem (moff x) (moff x :: firstn k (map moff r)) = true) by (apply zmem_in; now left).
    rewrite Hhd. cbn [negb]. rewrite <- (IH r Hr). unfold remove_offs. apply filter_ext_in. intros y Hy.
    unfold zmem. cbn [existsb]. specialize (Hx y Hy). destruct (moff y =? moff x) eqn:E; [lia|reflexivity].
Qed.

Lemma find_by_count_opened st max st1 offs : Inv st -> find_by_count H st max = Ok (st1, offs) -> opened st1 = opened st.
Proof.
  intros HI Ef. unfold find_by_count in Ef.
  destruct (log_stat H st) as [[sa [[sg cnt] sz]]|] eqn:Es; [|discriminate]. cbn [bind] in Ef.
  destruct (ReadsPreserve.log_stat_preserves H st sa _ HI Es) as (HIa & HAa & Hoa).
  destruct (cnt <=? max); [injection Ef as <- _; exact Hoa|].
  destruct (log_next_ok H sa HIa) as (sb & En & HIb & HAb & Hob). rewrite En in Ef. cbn [bind] in Ef.
  match type of Ef with (do r3 <- ?sc; _) = _ => destruct sc as [[s3 a3]|] eqn:Esc; [|discriminate] end.
  cbn [bind] in Ef. injection Ef as <- _. destruct (scan_loop_opened H _ _ _ _ _ _ _ _ _ HIb Esc) as (Hop & _). congruence.
Qed.

(* TrimByCountMulti: afterwards exactly the newest min(count, max) messages are left, untouched *)
Theorem trim_by_count_spec c st max :
  Inv st -> opened st = Some c -> cro c = false -> 0 <= max ->
  exists st' del size,
    trim_multi H (fun s => find_by_count H s max) st = (st', del, size, None) /\ Inv st' /\
    anext (abs st') = anext (abs st) /\
    let cnt := zlen (live (abs st)) in
    live (abs st') = skipn (Z.to_nat (cnt - max)) (live (abs st)) /\
    zlen (live (abs st')) = Z.min cnt max.
Proof.
  intros HI Hc Hro Hmax. destruct (find_by_count_spec H st max HI) as (st1 & Ef & HI1 & HA1). cbv zeta in Ef.
  pose proof (find_by_count_opened st max st1 _ HI Ef) as Hop.
  set (L := live (abs st)) in *. set (cnt := zlen L) in *.
  destruct (live_facts st HI) as (Hinc & _). fold L in Hinc.
  set (offs := if cnt <=? max then [] else firstn (Z.to_nat (cnt - max)) (map moff L)) in *.
  assert (Hlive : forall o, In o offs -> exists m, In m L /\ moff m = o).
  { intros o Ho. unfold offs in Ho. destruct (cnt <=? max); [contradiction|]. apply in_firstn in Ho. apply in_map_iff in Ho.
    destruct Ho as (x & Ex & Hx). eauto. }
  destruct (trim_multi_spec H c (fun s => find_by_count H s max) st st1 offs HI Hc Hro Ef HI1 HA1 ltac:(congruence) Hlive)
    as (st' & del & size & E & HI' & An & Al & _).
  exists st', del, size. split; [exact E|]. split; [exact HI'|]. split; [exact An|]. cbv zeta. fold L in Al. fold L. fold cnt.
  assert (Hres : live (abs st') = skipn (Z.to_nat (cnt - max)) L).
  { rewrite Al. unfold offs. destruct (cnt <=? max) eqn:Ec.
    - replace (Z.to_nat (cnt - max)) with O by lia. cbn [skipn]. unfold remove_offs. apply filter_all_true. intros; reflexivity.
    - now apply remove_first_k. }
  split; [exact Hres|]. rewrite Hres. unfold zlen. rewrite skipn_length. unfold cnt, zlen. lia.
Qed.

End TrimCount.

(* CompactUpdates on a log whose times never decrease: among the messages not newer than the cut-off at most one per
   key is left *)
Section OnePerKey.
Variable H : bytes -> Z.

Lemma tmono_examined before : forall L lo x, tmono lo L -> In x L -> mtime x <= before -> In x (examined before L).
Proof.
  unfold examined. induction L as [|y L IH]; intros lo x Hm Hx Hb; [contradiction|]. cbn [take_while].
  cbn [tmono] in Hm. destruct Hm as [Hlo Hm].
  assert (Hy : mtime y <= before).
  { destruct Hx as [->|Hx]; [exact Hb|]. pose proof (tmono_ge _ _ _ Hm Hx). lia. }
  assert (Eg : go_on (newer before) y = true) by (unfold go_on, newer; lia). rewrite Eg.
  destruct Hx as [->|Hx]; [now left|]. right. eapply IH; eassumption.
Qed.

Lemma first_with {A} (f : A -> bool) : forall b y, In y b -> f y = true ->
  exists mid m' post, b = mid ++ m' :: post /\ f m' = true /\ forall z, In z mid -> f z = false.
Proof.
  induction b as [|z b IH]; intros y Hy Hf; [contradiction|]. destruct (f z) eqn:Ez.
  - exists [], z, b. split; [reflexivity|]. split; [exact Ez|]. intros ? [].
  - destruct Hy as [->|Hy]; [congruence|]. destruct (IH y Hy Hf) as (mid & m' & post & -> & Hm' & Hmid).
    exists (z :: mid), m', post. split; [reflexivity|]. split; [exact Hm'|]. intros w [->|Hw]; [exact Ez|now apply Hmid].
Qed.

Lemma later_same_key_selected P a x b y :
  P = a ++ x :: b -> In y b -> mkey y = mkey x -> In (moff x) (fst (fold_left upd_g P ([], []))).
Proof.
  intros HP Hy Hk. apply upd_complete.
  destruct (first_with (has_key (mkey x)) b y Hy) as (mid & m' & post & Hb & Hm' & Hmid).
  { unfold has_key. rewrite Hk. apply ConsumeProofs.bytes_eqb_refl. }
  exists a, x, mid, m', post. split; [rewrite HP, Hb; reflexivity|]. split; [reflexivity|]. split.
  - unfold has_key in Hm'. apply bytes_eqb_eq in Hm'. congruence.
  - intros z Hz Ek. specialize (Hmid z Hz). unfold has_key in Hmid. rewrite <- Ek, ConsumeProofs.bytes_eqb_refl in Hmid. discriminate.
Qed.

Theorem compact_updates_one_per_key c st before lo :
  Inv st -> opened st = Some c -> cro c = false -> tmono lo (live (abs st)) ->
  exists st' del size,
    trim_multi H (fun s => find_updates H s before) st = (st', del, size, None) /\ Inv st' /\
    forall x y, In x (live (abs st')) -> In y (live (abs st')) -> mtime x <= before -> mtime y <= before ->
                mkey x = mkey y -> x = y.
Proof.
  intros HI Hc Hro Hmono. destruct (find_updates_spec H st before HI) as (st1 & Ef & HI1 & HA1).
  pose proof (find_updates_opened H st before st1 _ HI Ef) as Hop.
  set (L := live (abs st)) in *. set (P := examined before L) in *.
  destruct (upd_sound P) as [_ Hsound]. cbv zeta in Hsound. set (offs := fst (fold_left upd_g P ([], []))) in *.
  destruct (examined_prefix before L) as (R & HLR). fold P in HLR.
  assert (Hlive : forall o, In o offs -> exists m, In m L /\ moff m = o).
  { intros o Ho. destruct (Hsound o Ho) as (pre & m & mid & m' & post & HP & Hm & _). exists m. split; [|exact Hm].
    rewrite HLR, HP. apply in_or_app. left. apply in_or_app. right. now left. }
  destruct (trim_multi_spec H c (fun s => find_updates H s before) st st1 offs HI Hc Hro Ef HI1 HA1 ltac:(congruence) Hlive)
    as (st' & del & size & E & HI' & An & Al & Hd).
  exists st', del, size. split; [exact E|]. split; [exact HI'|]. fold L in Al. rewrite Al.
  assert (Hkey : forall x y a b, P = a ++ x :: b -> In y b -> mkey y = mkey x -> In x (remove_offs L offs) -> False).
  { intros x y a b HP Hy Hk Hx. pose proof (later_same_key_selected P a x b y HP Hy Hk) as Hsel. fold offs in Hsel.
    unfold remove_offs in Hx. apply filter_In in Hx. destruct Hx as [_ Hx]. apply zmem_in in Hsel. rewrite Hsel in Hx. discriminate. }
  intros x y Hx Hy Hbx Hby Hk.
  assert (HxL : In x L) by (unfold remove_offs in Hx; apply filter_In in Hx; tauto).
  assert (HyL : In y L) by (unfold remove_offs in Hy; apply filter_In in Hy; tauto).
  pose proof (tmono_examined before L lo x Hmono HxL Hbx) as HxP. fold P in HxP.
  pose proof (tmono_examined before L lo y Hmono HyL Hby) as HyP. fold P in HyP.
  destruct (in_split _ _ HxP) as (a & b & HP).
  rewrite HP in HyP. apply in_app_or in HyP. destruct HyP as [Hya|[E'|Hyb]].
  - (* y before x *)
    destruct (in_split _ _ Hya) as (a1 & a2 & Ha). exfalso.
    apply (Hkey y x a1 (a2 ++ x :: b)); [rewrite HP, Ha, <- app_assoc; reflexivity|apply in_or_app; right; now left|now symmetry|exact Hy].
  - exact E'.
  - exfalso. apply (Hkey x y a b HP Hyb); [now symmetry|exact Hx].
Qed.

End OnePerKey.
