(* AbsFacts.v — what Inv says about the abstract log: strictly increasing offsets, all below NextOffset. *)
From KV Require Import Base Model ListAux SpecFacts SearchProofs SegProofs ReaderProofs Spec LogInv ConsumeProofs.
From Coq Require Import ZifyBool ZifyNat.

Fixpoint inc (l : list msg) : Prop :=
  match l with [] => True | m :: r => (forall x, In x r -> moff m < moff x) /\ inc r end.

Lemma inc_app a b : inc a -> inc b -> (forall x y, In x a -> In y b -> moff x < moff y) -> inc (a ++ b).
Proof.
  induction a as [|m a IH]; intros Ha Hb Hab; [exact Hb|]. cbn [app inc]. destruct Ha as [Hm Ha]. split.
  - intros x Hx. apply in_app_or in Hx. destruct Hx as [Hx|Hx]; [now apply Hm|]. apply Hab; [left; reflexivity|assumption].
  - apply IH; [assumption|assumption|]. intros x y Hx Hy. apply Hab; [now right|assumption].
Qed.

Lemma recs_sorted_inc l : recs_sorted l -> inc l.
Proof.
  induction l as [|m r IH]; intros Hs; [exact I|]. split.
  - intros x Hx. now apply (recs_sorted_head_lt m r x).
  - apply IH. eapply recs_sorted_tail; eauto.
Qed.

Lemma inc_from lo l : inc l -> (forall x, In x l -> lo < moff x) -> offs_increasing_from lo l.
Proof.
  revert lo; induction l as [|m r IH]; intros lo Hi Hlo; [exact I|]. destruct Hi as [Hm Hr]. split.
  - apply Hlo. left. reflexivity.
  - apply IH; assumption.
Qed.

Lemma inc_offs_increasing l : inc l -> offs_increasing l.
Proof. destruct l as [|m r]; [trivial|]. intros [Hm Hr]. cbn. now apply inc_from. Qed.

Lemma all_recs_inc l : Forall seg_inv l -> chain_ok l -> inc (all_recs l).
Proof.
  induction l as [|s l IH]; intros HF Hch; [exact I|].
  inversion HF as [|? ? Hs HFl]; subst. rewrite all_recs_cons. apply inc_app.
  - apply recs_sorted_inc. destruct Hs as (Hsorted & _). exact Hsorted.
  - apply IH; [assumption|]. eapply chain_ok_tail; eauto.
  - intros x y Hx Hy. destruct (in_all_recs _ _ Hy) as (s2 & Hs2 & Hy2).
    pose proof (chain_offsets_lt s l s2 x Hch Hs2 Hx).
    assert (seg_inv s2) by (rewrite Forall_forall in HFl; now apply HFl).
    pose proof (seg_offsets_ge_base s2 y ltac:(assumption) Hy2). lia.
Qed.

Theorem abs_offsets_increasing st : Inv st -> offs_increasing (live (abs st)).
Proof. intros (_ & HF & Hch & _). apply inc_offs_increasing. now apply all_recs_inc. Qed.

Theorem abs_offsets_below_next st m : Inv st -> In m (live (abs st)) -> moff m < anext (abs st).
Proof.
  intros (Hne & HF & Hch & _) Hin. unfold abs, wnext in *. cbn [live anext] in *.
  destruct (last_opt (segs st)) as [hd|] eqn:E; [|apply last_opt_none in E; congruence].
  eapply live_lt_wnext; eauto.
Qed.
