(* Model.v — L1: the segment-list model of klevdb.  Every function here is a
   transcription of the named Go function (same branches, same error value).
   Executable; no proofs in this file. *)
From KV Require Import Base.

Section Model.

(* key hash: fnv64a in the executables, arbitrary in the theorems *)
Variable H : bytes -> Z.

(* ---------- sizes (pkg/message/format.go Size, pkg/index/index.go Params.Size) *)

Definition hdr_size (v : ver) : Z := match v with V1 => 0 | V2 => 8 end.
Definition rec_overhead (v : ver) : Z := match v with V1 => 28 | V2 => 36 end.
Definition rec_size (v : ver) (m : msg) : Z := rec_overhead v + zlen (mkey m) + zlen (mval m).
Definition item_size (p : params) : Z :=
  16 + (if ptimes p then 8 else 0) + (if pkeys p then 8 else 0).
Definition max_body : Z := 67108864.

Fixpoint recs_size (v : ver) (recs : list msg) : Z :=
  match recs with [] => 0 | m :: r => rec_size v m + recs_size v r end.
Definition log_size (v : ver) (recs : list msg) : Z := hdr_size v + recs_size v recs.

(* ---------- index items (pkg/index/index.go NewItem) *)

Definition new_item (p : params) (m : msg) (pos prevts : Z) : item :=
  mkItem (moff m) pos
         (if ptimes p then Z.max (mtime m) prevts else 0)
         (if pkeys p then H (mkey m) else 0).

Fixpoint derive_from (p : params) (v : ver) (pos ts : Z) (recs : list msg) : list item :=
  match recs with
  | [] => []
  | m :: r => let it := new_item p m pos ts in
              it :: derive_from p v (pos + rec_size v m) (its it) r
  end.
Definition derive (p : params) (v : ver) (recs : list msg) : list item :=
  derive_from p v (hdr_size v) 0 recs.

(* ---------- pkg/index/offset.go *)

Fixpoint bsearch_consume (fuel : nat) (items : list item) (b e off endpos : Z) : res (Z * Z) :=
  match fuel with
  | O => Err EOutOfFuel
  | S f =>
    if b <=? e then
      let mid := (b + e) / 2 in
      match znth items mid with
      | None => Err EPanic
      | Some it =>
        if ioff it <? off then bsearch_consume f items (mid + 1) e off endpos
        else if off <? ioff it then bsearch_consume f items b (mid - 1) off endpos
        else Ok (ipos it, endpos)
      end
    else match znth items b with
         | None => Err EPanic
         | Some it => Ok (ipos it, endpos)
         end
  end.

Definition index_consume (items : list item) (off : Z) : res (Z * Z) :=
  match items with
  | [] => Err EIdxEmpty
  | first :: _ =>
    let lst := last items first in
    if off =? OffsetOldest then Ok (ipos first, ipos lst)
    else if off =? OffsetNewest then Ok (ipos lst, ipos lst)
    else if off <=? ioff first then Ok (ipos first, ipos lst)
    else if ioff lst <? off then Err EAfterEnd
    else if off =? ioff lst then Ok (ipos lst, ipos lst)
    else bsearch_consume (S (length items)) items 0 (zlen items - 1) off (ipos lst)
  end.

Fixpoint bsearch_get (fuel : nat) (items : list item) (b e off : Z) : res Z :=
  match fuel with
  | O => Err EOutOfFuel
  | S f =>
    if b <=? e then
      let mid := (b + e) / 2 in
      match znth items mid with
      | None => Err EPanic
      | Some it =>
        if ioff it <? off then bsearch_get f items (mid + 1) e off
        else if off <? ioff it then bsearch_get f items b (mid - 1) off
        else Ok (ipos it)
      end
    else Err EOffNotFound
  end.

Definition index_get (items : list item) (off : Z) : res Z :=
  match items with
  | [] => Err EIdxEmpty
  | first :: _ =>
    let lst := last items first in
    if off =? OffsetOldest then Ok (ipos first)
    else if off =? OffsetNewest then Ok (ipos lst)
    else if off <? ioff first then Err EBeforeStart
    else if off =? ioff first then Ok (ipos first)
    else if ioff lst <? off then Err EAfterEnd
    else if off =? ioff lst then Ok (ipos lst)
    else bsearch_get (S (length items)) items 0 (zlen items - 1) off
  end.

(* ---------- pkg/index/times.go (sort.Search transcribed) *)

Fixpoint sort_search (fuel : nat) (items : list item) (i j ts : Z) : res Z :=
  match fuel with
  | O => Err EOutOfFuel
  | S f =>
    if i <? j then
      let h := (i + j) / 2 in
      match znth items h with
      | None => Err EPanic
      | Some it =>
        if ts <=? its it then sort_search f items i h ts
        else sort_search f items (h + 1) j ts
      end
    else Ok i
  end.

Definition index_time (items : list item) (ts : Z) : res Z :=
  match items with
  | [] => Err ETimeEmpty
  | first :: _ =>
    let lst := last items first in
    if ts <? its first then Err ETimeBefore
    else if ts =? its first then Ok (ipos first)
    else if its lst <? ts then Err ETimeAfter
    else
      do k <- sort_search (S (length items)) items 0 (zlen items) ts;
      match znth items k with
      | None => Err EPanic
      | Some it => Ok (ipos it)
      end
  end.

(* ---------- pkg/index/keys.go: the ART on 8-byte hashes as an association *)

Definition keys_lookup (items : list item) (h : Z) : res (list Z) :=
  match map ipos (filter (fun it => ihash it =? h) items) with
  | [] => Err EKeyNotFound
  | ps => Ok ps
  end.

(* ---------- pkg/segment/index.go (over the list of base offsets) *)

Fixpoint bsearch_seg (fuel : nat) (bases : list Z) (b e off : Z) : res Z :=
  match fuel with
  | O => Err EOutOfFuel
  | S f =>
    if b <? e then
      let mid := (b + e) / 2 in
      match znth bases mid with
      | None => Err EPanic
      | Some mb =>
        if mb <? off then bsearch_seg f bases (mid + 1) e off
        else if off <? mb then bsearch_seg f bases b (mid - 1) off
        else Ok mid
      end
    else match znth bases b with
         | None => Err EPanic
         | Some bb => if off <? bb then
                        (if b - 1 <? 0 then Err EPanic else Ok (b - 1))
                      else Ok b
         end
  end.

Definition seg_consume (bases : list Z) (off : Z) : res Z :=
  match bases with
  | [] => Err EPanic
  | first :: _ =>
    let lst := last bases first in
    if off =? OffsetOldest then Ok 0
    else if off =? OffsetNewest then Ok (zlen bases - 1)
    else if off <=? first then Ok 0
    else if lst <=? off then Ok (zlen bases - 1)
    else bsearch_seg (S (length bases)) bases 0 (zlen bases - 1) off
  end.

Definition seg_get (bases : list Z) (off : Z) : res Z :=
  match bases with
  | [] => Err EPanic
  | first :: _ =>
    let lst := last bases first in
    if off =? OffsetOldest then Ok 0
    else if off =? OffsetNewest then Ok (zlen bases - 1)
    else if off <? first then (if first =? 0 then Err ESegRelative else Err ESegBefore)
    else if off =? first then Ok 0
    else if lst <=? off then Ok (zlen bases - 1)
    else bsearch_seg (S (length bases)) bases 0 (zlen bases - 1) off
  end.

(* ---------- segments, configuration, state *)

Record seg := mkSeg {
  sbase : Z;
  sver  : ver;                          (* version of the .log file *)
  srecs : list msg;                     (* its records *)
  sidx  : option (ver * list item)      (* the .index file; None = missing *)
}.

Record cfg := mkCfg {
  cro : bool; ckeys : bool; ctimes : bool; cautosync : bool;
  crollover : Z; ccheck : bool; crecover : bool;
  cnewver : ver; ckeeprw : bool; ceager : bool
}.

Definition cparams (c : cfg) : params := mkParams (ctimes c) (ckeys c).

Record lstate := mkState {
  segs   : list seg;        (* directory, in name order; last = head when open *)
  wcarry : Z;               (* the nextTime given to the current writer *)
  opened : option cfg;
  lvirt  : bool             (* read-only handle over an empty directory *)
}.

Definition set_idx (s : seg) (ix : option (ver * list item)) : seg :=
  mkSeg (sbase s) (sver s) (srecs s) ix.

Definition seg_log_size (s : seg) : Z := log_size (sver s) (srecs s).
Definition idx_size (p : params) (ix : ver * list item) : Z :=
  hdr_size (fst ix) + zlen (snd ix) * item_size p.

(* message.OpenReader: the version check of an existing log file *)
Definition open_log_reader (s : seg) : res ver :=
  match sver s, srecs s with
  | V1, [] => Ok V1
  | V1, m :: _ => if moff m =? sbase s then Ok V1 else Err ELogCorrupted
  | V2, _ => Ok V2
  end.

(* index.Read header check of an existing index file *)
Definition open_idx_reader (s : seg) (ix : ver * list item) : res (list item) :=
  match ix with
  | (V1, []) => Ok []
  | (V1, it :: r) => if ioff it =? sbase s then Ok (it :: r) else Err EIndexCorrupted
  | (V2, items) => Ok items
  end.

(* segment.ReindexAndReadIndex *)
Definition needs_reindex (s : seg) : bool :=
  match sidx s with None => true | Some (_, []) => true | Some _ => false end.

Definition reindex (p : params) (newv : ver) (s : seg) : res (seg * list item) :=
  do v <- open_log_reader s;
  let items := derive p v (srecs s) in
  (* index.Write goes through a temporary file that replaces whatever was there: version newv *)
  Ok (set_idx s (Some (newv, items)), items).

Definition ensure_index (p : params) (newv : ver) (s : seg) : res (seg * list item) :=
  if needs_reindex s then reindex p newv s
  else match sidx s with
       | Some ix => do items <- open_idx_reader s ix; Ok (s, items)
       | None => Err EPanic
       end.

(* ---------- record-level file reads (pkg/message/format.go Reader) *)

Fixpoint read_at_from (v : ver) (cur : Z) (recs : list msg) (pos : Z) : res msg :=
  match recs with
  | [] => Err EOther                       (* read header: EOF *)
  | m :: r => if pos =? cur then Ok m
              else if pos <? cur + rec_size v m then Err ELogCorrupted
              else read_at_from v (cur + rec_size v m) r pos
  end.
Definition read_at (s : seg) (pos : Z) : res msg :=
  read_at_from (sver s) (hdr_size (sver s)) (srecs s) pos.

Fixpoint skip_to (v : ver) (cur : Z) (recs : list msg) (pos : Z) : option (Z * list msg) :=
  if pos =? cur then Some (cur, recs)
  else match recs with
       | [] => None
       | m :: r => if pos <? cur + rec_size v m then None
                   else skip_to v (cur + rec_size v m) r pos
       end.

Fixpoint take_upto (v : ver) (cur : Z) (recs : list msg) (maxpos : Z) (n : nat) : list msg :=
  match n, recs with
  | S n', m :: r => if cur <=? maxpos then m :: take_upto v (cur + rec_size v m) r maxpos n' else []
  | _, _ => []
  end.

(* message.Reader.Consume(position, maxPosition, maxCount) *)
Definition messages_consume (s : seg) (pos maxpos maxcount : Z) : res (list msg) :=
  if maxcount <? 0 then Err EPanic
  else match skip_to (sver s) (hdr_size (sver s)) (srecs s) pos with
       | None => Err ELogCorrupted
       | Some (cur, recs) =>
         Ok (take_upto (sver s) cur recs maxpos (Z.to_nat (Z.min maxcount (zlen recs))))
       end.

(* ---------- readerIndex / writerIndex wrappers (log_reader.go, log_writer.go) *)

Definition idx_next (s : seg) (items : list item) : Z :=
  match last_opt items with Some it => ioff it + 1 | None => sbase s end.

Definition ridx_consume (s : seg) (items : list item) (hd : bool) (off : Z) : res (Z * Z * Z) :=
  match index_consume items off with
  | Ok (p, mp) => Ok (p, mp, off)
  | Err e =>
    if (ierr_eqb e EIdxEmpty || ierr_eqb e EAfterEnd) && hd && (off <=? idx_next s items)
    then Ok (-1, -1, idx_next s items)
    else Err e
  end.

Definition ridx_get (s : seg) (items : list item) (hd : bool) (off : Z) : res Z :=
  match index_get items off with
  | Ok p => Ok p
  | Err e =>
    if ierr_eqb e EAfterEnd && hd && (idx_next s items <=? off)
    then Err EInvalidOffset else Err e
  end.

(* reader.Consume *)
Definition reader_consume (s : seg) (items : list item) (hd : bool) (off max : Z)
  : res (Z * list msg) :=
  if off =? OffsetNewest then Ok (idx_next s items, [])
  else
    do r <- ridx_consume s items hd off;
    let '(pos, maxpos, nxt) := r in
    if pos =? -1 then Ok (nxt, [])
    else
      do ms <- messages_consume s pos maxpos max;
      match last_opt ms with
      | None => Err EPanic                       (* msgs[len(msgs)-1] *)
      | Some m => Ok (moff m + 1, ms)
      end.

(* reader.Get *)
Definition reader_get (s : seg) (items : list item) (hd : bool) (off : Z) : res msg :=
  do pos <- ridx_get s items hd off;
  read_at s pos.

Fixpoint read_all (s : seg) (ps : list Z) : res (list msg) :=
  match ps with
  | [] => Ok []
  | p :: r => do m <- read_at s p; do ms <- read_all s r; Ok (m :: ms)
  end.

(* reader.GetByKey: last position whose message has exactly this key *)
Definition reader_get_by_key (s : seg) (items : list item) (k : bytes) : res msg :=
  do ps <- keys_lookup items (H k);
  (fix go (l : list Z) : res msg :=
     match l with
     | [] => Err EKeyNotFound
     | p :: r => do m <- read_at s p;
                 if bytes_eqb k (mkey m) then Ok m else go r
     end) (rev ps).

(* reader.ConsumeByKey *)
Fixpoint cbk_loop (s : seg) (ps : list Z) (k : bytes) (off : Z) (room : nat) : res (list msg) :=
  match ps with
  | [] => Ok []
  | p :: r =>
    do m <- read_at s p;
    if moff m <? off then cbk_loop s r k off room
    else if bytes_eqb k (mkey m) then
      match room with
      | O => Ok [m]                (* appended, then len >= maxCount: break *)
      | S O => Ok [m]
      | S room' => do ms <- cbk_loop s r k off room'; Ok (m :: ms)
      end
    else cbk_loop s r k off room
  end.

Definition reader_consume_by_key (s : seg) (items : list item) (k : bytes) (off max : Z)
  : res (Z * list msg) :=
  if off =? OffsetNewest then Ok (idx_next s items, [])
  else match keys_lookup items (H k) with
       | Err EKeyNotFound => Ok (idx_next s items, [])
       | Err e => Err e
       | Ok ps =>
         do ms <- cbk_loop s ps k off (Z.to_nat (Z.min max (zlen ps)));
         match last_opt ms with
         | None => Ok (idx_next s items, [])
         | Some m => Ok (moff m + 1, ms)
         end
       end.

(* reader.GetByTime *)
Definition reader_get_by_time (s : seg) (items : list item) (ts : Z) : res msg :=
  do pos <- index_time items ts;
  read_at s pos.

(* ---------- log level (log.go) *)

Definition bases (l : list seg) : list Z := map sbase l.

Fixpoint replace_nth {A} (n : nat) (l : list A) (x : A) : list A :=
  match n, l with
  | O, _ :: r => x :: r
  | S n', y :: r => y :: replace_nth n' r x
  | _, [] => []
  end.

Definition set_segs (st : lstate) (l : list seg) : lstate :=
  mkState l (wcarry st) (opened st) (lvirt st).

Definition is_last (st : lstate) (i : Z) : bool := i =? zlen (segs st) - 1.

Definition head_items (s : seg) : list item :=
  match sidx s with Some (_, items) => items | None => [] end.


(* r.getIndexNow(): lazily (re)build and load the index of segment i *)
Definition with_index (c : cfg) (st : lstate) (i : Z) : res (lstate * seg * list item) :=
  match znth (segs st) i with
  | None => Err EPanic
  | Some s =>
    if lvirt st then Ok (st, s, [])
    else if (i =? zlen (segs st) - 1) && negb (cro c) then Ok (st, s, head_items s)   (* the writer's index *)
    else
      do r <- ensure_index (cparams c) (cnewver c) s;
      let '(s', items) := r in
      Ok (set_segs st (replace_nth (Z.to_nat i) (segs st) s'), s', items)
  end.

Definition get_cfg (st : lstate) : res cfg :=
  match opened st with Some c => Ok c | None => Err EClosed end.

(* log.Consume *)
Definition log_consume (st : lstate) (off max : Z) : res (lstate * (Z * list msg)) :=
  do c <- get_cfg st;
  do i <- seg_consume (bases (segs st)) off;
  do r <- with_index c st i;
  let '(st1, s, items) := r in
  match reader_consume s items (is_last st i) off max with
  | Err EAfterEnd =>
    if i <? zlen (segs st) - 1 then
      do r2 <- with_index c st1 (i + 1);
      let '(st2, s2, items2) := r2 in
      do o <- reader_consume s2 items2 (is_last st (i + 1)) OffsetOldest max;
      Ok (st2, o)
    else Err EAfterEnd
  | Err e => Err e
  | Ok o => Ok (st1, o)
  end.

(* log.Get — with the F1 repair: OffsetNewest skips an empty head segment *)
Fixpoint get_newest_back (c : cfg) (st : lstate) (n : nat) (i : Z) : res (lstate * msg) :=
  do r <- with_index c st i;
  let '(st1, s, items) := r in
  match reader_get s items (is_last st i) OffsetNewest with
  | Err EIdxEmpty =>
    match n with
    | O => Err EIdxEmpty
    | S n' => if 0 <? i then get_newest_back c st1 n' (i - 1) else Err EIdxEmpty
    end
  | Err e => Err e
  | Ok m => Ok (st1, m)
  end.

Definition log_get (st : lstate) (off : Z) : res (lstate * msg) :=
  do c <- get_cfg st;
  do i <- seg_get (bases (segs st)) off;
  if off =? OffsetNewest then get_newest_back c st (length (segs st)) i
  else
    do r <- with_index c st i;
    let '(st1, s, items) := r in
    match reader_get s items (is_last st i) off with
    | Err EAfterEnd => if i <? zlen (segs st) - 1 then Err EOffNotFound else Err EAfterEnd
    | Err e => Err e
    | Ok m => Ok (st1, m)
    end.

(* log.GetByKey: newest segment first *)
Fixpoint get_by_key_back (c : cfg) (st : lstate) (k : bytes) (n : nat) (i : Z) : res (lstate * msg) :=
  match n with
  | O => Err EKeyNotFound
  | S n' =>
    do r <- with_index c st i;
    let '(st1, s, items) := r in
    match reader_get_by_key s items k with
    | Ok m => Ok (st1, m)
    | Err EKeyNotFound => get_by_key_back c st1 k n' (i - 1)
    | Err e => Err e
    end
  end.

Definition log_get_by_key (st : lstate) (k : bytes) : res (lstate * msg) :=
  do c <- get_cfg st;
  if negb (ckeys c) then Err ENoIndex
  else get_by_key_back c st k (length (segs st)) (zlen (segs st) - 1).

(* log.OffsetByKey: GetByKey, then the offset of what it found *)
Definition log_offset_by_key (st : lstate) (k : bytes) : res (lstate * Z) :=
  do r <- log_get_by_key st k;
  Ok (fst r, moff (snd r)).

(* log.ConsumeByKey *)
Fixpoint consume_by_key_fwd (c : cfg) (st : lstate) (k : bytes) (n : nat) (i off max : Z)
  : res (lstate * (Z * list msg)) :=
  match n with
  | O => Err EOutOfFuel
  | S n' =>
    do r <- with_index c st i;
    let '(st1, s, items) := r in
    do o <- reader_consume_by_key s items k off max;
    let '(nxt, ms) := o in
    match ms with
    | _ :: _ => Ok (st1, o)
    | [] => if zlen (segs st) - 1 <=? i then Ok (st1, o)
            else consume_by_key_fwd c st1 k n' (i + 1) OffsetOldest max
    end
  end.

Definition log_consume_by_key (st : lstate) (k : bytes) (off max : Z)
  : res (lstate * (Z * list msg)) :=
  do c <- get_cfg st;
  if negb (ckeys c) then Err ENoIndex
  else
    do i <- seg_consume (bases (segs st)) off;
    consume_by_key_fwd c st k (S (length (segs st))) i off max.

(* log.GetByTime: walk newest to oldest, remember the best candidate, skip
   empty segments, stop at the first segment that ends before ts; a log
   without any message reports ErrTimeIndexEmpty *)
Inductive tcand := TEmpty | TNone | TFound (m : msg) | TBefore (i : Z).

Fixpoint get_by_time_back (c : cfg) (st : lstate) (ts : Z) (n : nat) (i : Z) (cand : tcand)
  : res (lstate * tcand) :=
  match n with
  | O => Ok (st, cand)
  | S n' =>
    do r <- with_index c st i;
    let '(st1, s, items) := r in
    match reader_get_by_time s items ts with
    | Ok m => get_by_time_back c st1 ts n' (i - 1) (TFound m)
    | Err ETimeBefore => get_by_time_back c st1 ts n' (i - 1) (TBefore i)
    | Err ETimeEmpty => get_by_time_back c st1 ts n' (i - 1) cand
    | Err ETimeAfter => Ok (st1, match cand with TEmpty => TNone | _ => cand end)
    | Err e => Err e
    end
  end.

Definition log_get_by_time (st : lstate) (ts : Z) : res (lstate * msg) :=
  do c <- get_cfg st;
  if negb (ctimes c) then Err ENoIndex
  else
    do r <- get_by_time_back c st ts (length (segs st)) (zlen (segs st) - 1) TEmpty;
    let '(st1, cand) := r in
    match cand with
    | TEmpty => Err ETimeEmpty
    | TNone => Err ETimeNotFound
    | TFound m => Ok (st1, m)
    | TBefore i =>
      do r2 <- with_index c st1 i;
      let '(st2, s, items) := r2 in
      do m <- reader_get s items (is_last st i) OffsetOldest;
      Ok (st2, m)
    end.

(* log.OffsetByTime: GetByTime, then the offset and the time of what it found *)
Definition log_offset_by_time (st : lstate) (ts : Z) : res (lstate * (Z * Z)) :=
  do r <- log_get_by_time st ts;
  Ok (fst r, (moff (snd r), mtime (snd r))).

(* NextOffset / Sync *)
Definition head_seg (st : lstate) : res seg :=
  match last_opt (segs st) with Some s => Ok s | None => Err EPanic end.

Definition log_next (st : lstate) : res (lstate * Z) :=
  do c <- get_cfg st;
  do r <- with_index c st (zlen (segs st) - 1);
  let '(st1, s, items) := r in
  Ok (st1, idx_next s items).

(* ---------- Publish (log.go Publish, log_writer.go Publish) *)

Fixpoint assign_offsets (next : Z) (ms : list msg) : list msg :=
  match ms with
  | [] => []
  | m :: r => mkMsg next (mtime m) (mkey m) (mval m) :: assign_offsets (next + 1) r
  end.

Definition msg_too_big (m : msg) : bool := max_body <? zlen (mkey m) + zlen (mval m).


Definition next_time (st : lstate) (s : seg) : Z :=
  match last_opt (head_items s) with Some it => its it | None => wcarry st end.

(* writer.NeedsRollover — with the F5 repair: an empty head never rolls over *)
Definition needs_rollover (c : cfg) (s : seg) : bool :=
  (crollover c <? seg_log_size s) && (match srecs s with [] => false | _ => true end).

Definition new_head (c : cfg) (base : Z) : seg :=
  mkSeg base (cnewver c) [] (Some (cnewver c, [])).

Definition log_publish (st : lstate) (ms : list msg) : res (lstate * Z) :=
  do c <- get_cfg st;
  if cro c then Err EReadonly
  else
    do hd <- head_seg st;
    let nxt := idx_next hd (head_items hd) in
    let nt := next_time st hd in
    (* rollover *)
    let '(st1, hd1) :=
        if needs_rollover c hd
        then (mkState (segs st ++ [new_head c nxt]) nt (opened st) (lvirt st), new_head c nxt)
        else (st, hd) in
    (* F12 repair: the whole batch is validated before the first write *)
    if existsb msg_too_big ms then Err ETooBig
    else
      let newrecs := assign_offsets nxt ms in
      let pos := seg_log_size hd1 in
      let ts := next_time st1 hd1 in
      let p := cparams c in
      let iv := match sidx hd1 with Some (iv, _) => iv | None => cnewver c end in
      let hd2 := mkSeg (sbase hd1) (sver hd1) (srecs hd1 ++ newrecs)
                       (Some (iv, head_items hd1 ++ derive_from p (sver hd1) pos ts newrecs)) in
      let st2 := set_segs st1 (replace_nth (length (segs st1) - 1) (segs st1) hd2) in
      Ok (st2, idx_next hd2 (head_items hd2)).

(* ---------- Delete (log.go delete, segment.Rewrite, reader.Delete, writer.Delete) *)

Definition deleted_size (p : params) (v : ver) (ms : list msg) : Z :=
  fold_right (fun m acc => rec_size v m + item_size p + acc) 0 ms.

Definition rewritten (p : params) (mv iv : ver) (survive : list msg) : seg :=
  mkSeg (zmin_list (map moff survive)) mv survive (Some (iv, derive p mv survive)).

Definition log_delete (st : lstate) (offs : list Z) : res (lstate * (list msg * Z)) :=
  do c <- get_cfg st;
  if cro c then Err EReadonly
  else match offs with
  | [] => Ok (st, ([], 0))
  | _ =>
    let lowest := zmin_list offs in
    if lowest <? 0 then Err EDeleteRelative
    else
      do i <- seg_get (bases (segs st)) lowest;
      match znth (segs st) i with
      | None => Err EPanic
      | Some src =>
        do srcv <- open_log_reader src;
        let p := cparams c in
        let mv := if ckeeprw c then srcv else cnewver c in
        let iv := mv in
        let deleted := filter (fun m => zmem (moff m) offs) (srecs src) in
        let survive := filter (fun m => negb (zmem (moff m) offs)) (srecs src) in
        let dsize := deleted_size p srcv deleted in
        match deleted with
        | [] => Ok (st, ([], 0))
        | _ :: _ =>
          let n := Z.to_nat i in
          if is_last st i then
            (* writer.Delete *)
            let nxt := idx_next src (head_items src) in
            let nt := next_time st src in
            let lastoff := nxt - 1 in
            let front := firstn n (segs st) in
            match survive with
            | [] =>
              Ok (mkState (front ++ [new_head c nxt]) nt (opened st) (lvirt st), (deleted, dsize))
            | _ :: _ =>
              let rs := rewritten p mv iv survive in
              let lastdel := match last_opt deleted with Some m => moff m | None => -3 end in
              if lastdel =? lastoff
              then Ok (mkState (front ++ [rs; new_head c nxt]) nt (opened st) (lvirt st),
                       (deleted, dsize))
              else Ok (mkState (front ++ [rs]) nt (opened st) (lvirt st), (deleted, dsize))
            end
          else
            (* reader.Delete *)
            match survive with
            | [] => Ok (set_segs st (firstn n (segs st) ++ skipn (S n) (segs st)), (deleted, dsize))
            | _ :: _ =>
              Ok (set_segs st (replace_nth n (segs st) (rewritten p mv iv survive)), (deleted, dsize))
            end
        end
      end
  end.

(* ---------- Stat (with the F4 repair: the lazy index rebuild runs first) *)

Fixpoint stat_loop (c : cfg) (st : lstate) (n : nat) (i : Z) (acc : Z * Z * Z)
  : res (lstate * (Z * Z * Z)) :=
  match n with
  | O => Ok (st, acc)
  | S n' =>
    do r <- with_index c st i;
    let '(st1, s, items) := r in
    let '(sg, cnt, sz) := acc in
    let isz := match sidx s with Some ix => idx_size (cparams c) ix | None => 0 end in
    let icnt := match sidx s with Some ix => zlen (snd ix) | None => 0 end in
    stat_loop c st1 n' (i + 1) (sg + 1, cnt + icnt, sz + seg_log_size s + isz)
  end.

Definition log_stat (st : lstate) : res (lstate * (Z * Z * Z)) :=
  do c <- get_cfg st;
  if lvirt st then Ok (st, (0, 0, 0))
  else stat_loop c st (length (segs st)) 0 (0, 0, 0).

(* Log.Size *)
Definition log_msg_size (c : cfg) (m : msg) : Z := rec_size (cnewver c) m + item_size (cparams c).

(* ---------- segment-level maintenance (pkg/segment/segment.go), record level *)

Definition segment_check (p : params) (s : seg) : res unit :=
  do v <- open_log_reader s;
  match sidx s with
  | None => Ok tt
  | Some ix =>
    do items <- open_idx_reader s ix;
    if list_eqb item_eqb (derive p v (srecs s)) items then Ok tt else Err EIndexCorrupted
  end.

Definition segment_recover (p : params) (s : seg) : res seg :=
  do v <- open_log_reader s;
  match sidx s with
  | None => Ok s
  | Some ix =>
    match open_idx_reader s ix with
    | Err _ => Ok (set_idx s None)
    | Ok items =>
      if list_eqb item_eqb items (derive p v (srecs s)) then Ok s
      else Ok (set_idx s (Some (fst ix, derive p v (srecs s))))
    end
  end.

Definition segment_migrate (p : params) (mv iv : ver) (s : seg) : res seg :=
  do v <- open_log_reader s;
  if ver_eqb v mv then Ok s
  else Ok (mkSeg (sbase s) mv (srecs s) (Some (iv, derive p mv (srecs s)))).

Fixpoint map_res {A B} (f : A -> res B) (l : list A) : res (list B) :=
  match l with
  | [] => Ok []
  | x :: r => do y <- f x; do ys <- map_res f r; Ok (y :: ys)
  end.

Definition map_last {A} (f : A -> res A) (l : list A) : res (list A) :=
  match rev l with
  | [] => Ok []
  | x :: r => do y <- f x; Ok (rev (y :: r))
  end.

(* klevdb.Migrate / Check / Recover on a closed directory *)
Definition dir_migrate (p : params) (v : ver) (st : lstate) : res lstate :=
  do l <- map_res (segment_migrate p v v) (segs st); Ok (set_segs st l).
Definition dir_check (p : params) (st : lstate) : res unit :=
  match last_opt (segs st) with None => Ok tt | Some s => segment_check p s end.
Definition dir_recover (p : params) (st : lstate) : res lstate :=
  do l <- map_last (segment_recover p) (segs st); Ok (set_segs st l).
Definition dir_check_all (p : params) (st : lstate) : res unit :=
  do _ <- map_res (segment_check p) (segs st); Ok tt.

(* segment.StatDir: reads the index files as they are *)
Fixpoint dir_stat_loop (p : params) (l : list seg) (acc : Z * Z * Z) : res (Z * Z * Z) :=
  match l with
  | [] => Ok acc
  | s :: r =>
    match sidx s with
    | None => Err ENotExist
    | Some ix =>
      do _ <- open_idx_reader s ix;
      let '(sg, cnt, sz) := acc in
      dir_stat_loop p r (sg + 1, cnt + zlen (snd ix), sz + seg_log_size s + idx_size p ix)
    end
  end.
Definition dir_stat (p : params) (st : lstate) : res (Z * Z * Z) :=
  dir_stat_loop p (segs st) (0, 0, 0).

(* removing index files of the segments at the given ordinals (test action) *)
Fixpoint rm_index_at (l : list seg) (i : Z) (which : list Z) (all : bool) : list seg :=
  match l with
  | [] => []
  | s :: r => (if all || zmem i which then set_idx s None else s) :: rm_index_at r (i + 1) which all
  end.

(* ---------- Open / Close (log.go Open) *)

(* openWriter on the head segment *)
Definition open_writer (c : cfg) (s : seg) : res seg :=
  let p := cparams c in
  (* message.OpenWriter *)
  do s1 <- (if seg_log_size s =? 0 then Ok (mkSeg (sbase s) (cnewver c) (srecs s) (sidx s))
            else do _ <- open_log_reader s; Ok s);
  (* index of the existing records *)
  do s2 <- (if 8 <? seg_log_size s1
            then do r <- ensure_index p (cnewver c) s1; Ok (fst r)
            else Ok s1);
  (* index.OpenWriter *)
  match sidx s2 with
  | None => Ok (set_idx s2 (Some (cnewver c, [])))
  | Some (V1, []) => Ok (set_idx s2 (Some (cnewver c, [])))
  | Some ix => do _ <- open_idx_reader s2 ix; Ok s2
  end.

Definition norm_cfg (c : cfg) : cfg :=
  mkCfg (cro c) (ckeys c) (ctimes c) (cautosync c)
        (if crollover c <=? 0 then 1048576 else crollover c)
        (ccheck c) (crecover c) (cnewver c) (ckeeprw c) (ceager c).

Definition log_open (st : lstate) (c0 : cfg) : res lstate :=
  let c := norm_cfg c0 in
  let p := cparams c in
  match opened st with
  | Some _ => Err ELocked
  | None =>
    match segs st, cro c with
    | [], true =>
      Ok (mkState [mkSeg 0 (cnewver c) [] (Some (cnewver c, []))] 0 (Some c) true)
    | l, true =>
      do _ <- (if ccheck c || crecover c then dir_check p st else Ok tt);
      Ok (mkState l 0 (Some c) false)
    | [], false =>
      do w <- open_writer c (mkSeg 0 V1 [] None);
      Ok (mkState [w] 0 (Some c) false)
    | l, false =>
      do l1 <- (if crecover c then map_last (segment_recover p) l
                else if ccheck c then do _ <- dir_check p st; Ok l
                else Ok l);
      do l2 <- (if ceager c then map_res (segment_migrate p (cnewver c) (cnewver c)) l1 else Ok l1);
      do l3 <- map_last (open_writer c) l2;
      Ok (mkState l3 0 (Some c) false)
    end
  end.

Definition log_close (st : lstate) : res lstate :=
  match opened st with
  | None => Err EClosed
  | Some _ => Ok (mkState (if lvirt st then [] else segs st) 0 None false)
  end.

Definition init_state : lstate := mkState [] 0 None false.

End Model.
