(* XHistory.v — C01 / C15 / C16 / C12: the history theorem extended with the helper calls of delete.go, trim_*.go,
   compact_*.go, compact.go and with GC.  A helper is a loop of API calls (Helpers.v transcribes each loop); here
   every one of them is a step of the handle in its own right, in ANY Good state and whatever it returns - also
   when it stops half-way with an error after some passes of DeleteMulti have already removed messages:
   the abstract log afterwards is the abstract log before minus exactly the messages the call reported, NextOffset
   is unchanged, and the handle is still Good.  GC drops caches only: the model has none, the step is the identity
   (what the implementation's GC does to later reads is covered by the correspondence runs, which call it). *)
From KV Require Import Base Model Helpers ListAux Spec SpecFacts SearchProofs SegProofs ReaderProofs LogInv
     ConsumeProofs GetProofs AbsFacts PublishProofs DeleteProofs OpenProofs ReadsPreserve History.

Section XHistory.
Variable H : bytes -> Z.

Inductive xop :=
| XBase (op : hop)
| XDeleteMulti (offs : list Z)
| XTrimByOffset (before : Z) | XTrimByCount (max : Z) | XTrimBySize (sz : Z) | XTrimByAge (before : Z)
| XCompactUpdates (before : Z) | XCompactDeletes (before : Z)
| XCompact (updates_before deletes_before : Z)
| XDeleteMultiBackoff (bk : nat) (offs : list Z)          (* the backoff function fails at its (bk+1)-th call *)
| XTrimByOffsetBackoff (bk : nat) (before : Z)
| XGC.

Inductive xout :=
| XO (o : hout)
| XDel (deleted : list msg) (size : Z) (err : option ierr)
| XNone.

Definition xdel (r : lstate * list msg * Z * option ierr) : lstate * xout :=
  let '(st', del, size, e) := r in (st', XDel del size e).

(* compact.go Compact: CompactUpdates, then (only if that did not fail) CompactDeletes, then GC *)
Definition compact_both (st : lstate) (ub db : Z) : lstate * list msg * Z * option ierr :=
  let '(s1, d1, z1, e1) := trim_multi H (fun s => find_updates H s ub) st in
  match e1 with
  | Some e => (s1, d1, z1, Some e)
  | None => let '(s2, d2, z2, e2) := trim_multi H (fun s => find_deletes H s db) s1 in (s2, d1 ++ d2, z1 + z2, e2)
  end.

Definition xh_step (st : lstate) (op : xop) : lstate * xout :=
  match op with
  | XBase o => let (s, r) := hstep H st o in (s, XO r)
  | XDeleteMulti offs => xdel (log_delete_multi H st offs)
  | XTrimByOffset b => xdel (trim_multi H (fun s => find_by_offset H s b) st)
  | XTrimByCount n => xdel (trim_multi H (fun s => find_by_count H s n) st)
  | XTrimBySize z => xdel (trim_multi H (fun s => find_by_size H s z) st)
  | XTrimByAge t => xdel (trim_multi H (fun s => find_by_age H s t) st)
  | XCompactUpdates t => xdel (trim_multi H (fun s => find_updates H s t) st)
  | XCompactDeletes t => xdel (trim_multi H (fun s => find_deletes H s t) st)
  | XCompact ub db => xdel (compact_both st ub db)
  | XDeleteMultiBackoff bk offs => xdel (log_delete_multi_bk H bk st offs)
  | XTrimByOffsetBackoff bk b => xdel (trim_multi_bk H bk (fun s => find_by_offset H s b) st)
  | XGC => (st, XNone)
  end.

Definition xh_spec_step (a : alog) (op : xop) (o : xout) : alog :=
  match op, o with
  | XBase b, XO r => spec_step a b r
  | _, XDel deleted _ _ => mkAlog (remove_msgs (live a) deleted) (anext a)
  | _, _ => a
  end.

Fixpoint xh_run (st : lstate) (ops : list xop) : lstate * list xout :=
  match ops with
  | [] => (st, [])
  | op :: r => let (s1, o) := xh_step st op in let (s2, os) := xh_run s1 r in (s2, o :: os)
  end.

Fixpoint xh_spec_run (a : alog) (ops : list xop) (outs : list xout) : alog :=
  match ops, outs with
  | op :: r, o :: os => xh_spec_run (xh_spec_step a op o) r os
  | _, _ => a
  end.

(* ---------- the calls a helper is made of, on Good states *)

Lemma remove_msgs_app l a b : remove_msgs (remove_msgs l a) b = remove_msgs l (a ++ b).
Proof.
  unfold remove_msgs. induction l as [|m l IH]; [reflexivity|]. cbn [filter]. rewrite existsb_app.
  destruct (existsb (fun d => moff d =? moff m) a) eqn:Ea; cbn [negb orb].
  - exact IH.
  - cbn [filter]. destruct (existsb (fun d => moff d =? moff m) b); cbn [negb]; [exact IH|]. f_equal. exact IH.
Qed.

Lemma remove_msgs_nil l : remove_msgs l [] = l.
Proof. unfold remove_msgs. induction l as [|m l IH]; [reflexivity|]. cbn. now f_equal. Qed.

Lemma good_consume st off max st1 r :
  Good st -> log_consume H st off max = Ok (st1, r) -> Good st1 /\ abs st1 = abs st.
Proof. intros HG E. pose proof (hstep_good H st (HCons off max) HG) as P. cbn [hstep] in P. rewrite E in P. exact P. Qed.

Lemma good_next st st1 n : Good st -> log_next H st = Ok (st1, n) -> Good st1 /\ abs st1 = abs st.
Proof. intros HG E. pose proof (hstep_good H st HNext HG) as P. cbn [hstep] in P. rewrite E in P. exact P. Qed.

Lemma good_stat st st1 r : Good st -> log_stat H st = Ok (st1, r) -> Good st1 /\ abs st1 = abs st.
Proof. intros HG E. pose proof (hstep_good H st HStat HG) as P. cbn [hstep] in P. rewrite E in P. exact P. Qed.

Lemma good_get_by_time st ts st1 m : Good st -> log_get_by_time H st ts = Ok (st1, m) -> Good st1 /\ abs st1 = abs st.
Proof. intros HG E. pose proof (hstep_good H st (HGetT ts) HG) as P. cbn [hstep] in P. rewrite E in P. exact P. Qed.

Lemma good_delete st offs st1 del sz :
  Good st -> log_delete H st offs = Ok (st1, (del, sz)) ->
  Good st1 /\ abs st1 = mkAlog (remove_msgs (live (abs st)) del) (anext (abs st)).
Proof. intros HG E. pose proof (hstep_good H st (HDel offs) HG) as P. cbn [hstep] in P. rewrite E in P. exact P. Qed.

(* the scanning loop of every Find* only reads *)
Lemma scan_loop_good {A} (step : A -> msg -> A * brk) cond : forall fuel st off maxoff acc st' a,
  Good st -> scan_loop H fuel st off maxoff acc cond step = Ok (st', a) -> Good st' /\ abs st' = abs st.
Proof.
  induction fuel as [|f IH]; intros st off maxoff acc st' a HG E; [discriminate|]. cbn [scan_loop] in E.
  destruct ((off <? maxoff) && cond acc); [|injection E as <- <-; split; [assumption|reflexivity]].
  destruct (log_consume H st off 32) as [[st1 [nxt ms]]|] eqn:Ec; [|discriminate]. cbn [bind] in E.
  destruct (good_consume _ _ _ _ _ HG Ec) as [G1 A1].
  destruct (inner step acc ms) as [a1 [ | | ]].
  - destruct (IH _ _ _ _ _ _ G1 E) as [G' A']. split; [assumption|congruence].
  - destruct (IH _ _ _ _ _ _ G1 E) as [G' A']. split; [assumption|congruence].
  - injection E as <- <-. split; assumption.
Qed.

Definition reads_only (find : lstate -> res (lstate * list Z)) : Prop :=
  forall st st1 offs, Good st -> find st = Ok (st1, offs) -> Good st1 /\ abs st1 = abs st.

Lemma find_by_offset_reads before : reads_only (fun s => find_by_offset H s before).
Proof.
  intros st st1 offs HG E. unfold find_by_offset in E.
  destruct (before =? OffsetOldest); [injection E as <- _; split; [assumption|reflexivity]|].
  destruct (log_next H st) as [[sa nxt]|] eqn:En; [|discriminate]. cbn [bind] in E.
  destruct (good_next _ _ _ HG En) as [Ga Aa].
  match type of E with (do r2 <- ?sc; Ok r2) = _ => destruct sc as [[s2 a2]|] eqn:Esc; [|discriminate] end.
  cbn [bind] in E. injection E as <- _. destruct (scan_loop_good _ _ _ _ _ _ _ _ _ Ga Esc) as [G2 A2].
  split; [assumption|congruence].
Qed.

Lemma find_by_count_reads max : reads_only (fun s => find_by_count H s max).
Proof.
  intros st st1 offs HG E. unfold find_by_count in E.
  destruct (log_stat H st) as [[sa [[x cnt] y]]|] eqn:Es; [|discriminate]. cbn [bind] in E.
  destruct (good_stat _ _ _ HG Es) as [Ga Aa].
  destruct (cnt <=? max); [injection E as <- _; split; assumption|].
  destruct (log_next H sa) as [[sb nxt]|] eqn:En; [|discriminate]. cbn [bind] in E.
  destruct (good_next _ _ _ Ga En) as [Gb Ab].
  match type of E with (do r3 <- ?sc; _) = _ => destruct sc as [[s3 a3]|] eqn:Esc; [|discriminate] end.
  cbn [bind] in E. injection E as <- _. destruct (scan_loop_good _ _ _ _ _ _ _ _ _ Gb Esc) as [G3 A3].
  split; [assumption|congruence].
Qed.

Lemma find_by_size_reads sz : reads_only (fun s => find_by_size H s sz).
Proof.
  intros st st1 offs HG E. unfold find_by_size in E.
  destruct (get_cfg st) as [c|]; [|discriminate]. cbn [bind] in E.
  destruct (log_stat H st) as [[sa [[x cnt] total]]|] eqn:Es; [|discriminate]. cbn [bind] in E.
  destruct (good_stat _ _ _ HG Es) as [Ga Aa].
  destruct (total <? sz); [injection E as <- _; split; assumption|].
  destruct (log_next H sa) as [[sb nxt]|] eqn:En; [|discriminate]. cbn [bind] in E.
  destruct (good_next _ _ _ Ga En) as [Gb Ab].
  match type of E with (do r3 <- ?sc; _) = _ => destruct sc as [[s3 a3]|] eqn:Esc; [|discriminate] end.
  cbn [bind] in E. injection E as <- _. destruct (scan_loop_good _ _ _ _ _ _ _ _ _ Gb Esc) as [G3 A3].
  split; [assumption|congruence].
Qed.

Lemma find_by_age_reads before : reads_only (fun s => find_by_age H s before).
Proof.
  intros st st1 offs HG E. unfold find_by_age in E.
  match type of E with (do r <- ?first; _) = _ => destruct first as [[sa maxoff]|] eqn:Ef; [|discriminate] end.
  cbn [bind] in E.
  assert (Good sa /\ abs sa = abs st) as [Ga Aa].
  { destruct (log_get_by_time H st before) as [[sg m]|e] eqn:Eg.
    - injection Ef as <- _. exact (good_get_by_time _ _ _ _ HG Eg).
    - destruct (classify e); try discriminate; exact (good_next _ _ _ HG Ef). }
  destruct (scan_loop_good _ _ _ _ _ _ _ _ _ Ga E) as [G3 A3]. split; [assumption|congruence].
Qed.

Lemma find_updates_reads before : reads_only (fun s => find_updates H s before).
Proof.
  intros st st1 offs HG E. unfold find_updates in E.
  destruct (log_next H st) as [[sa nxt]|] eqn:En; [|discriminate]. cbn [bind] in E.
  destruct (good_next _ _ _ HG En) as [Ga Aa].
  match type of E with (do r2 <- ?sc; _) = _ => destruct sc as [[s2 a2]|] eqn:Esc; [|discriminate] end.
  cbn [bind] in E. injection E as <- _. destruct (scan_loop_good _ _ _ _ _ _ _ _ _ Ga Esc) as [G2 A2].
  split; [assumption|congruence].
Qed.

Lemma find_deletes_reads before : reads_only (fun s => find_deletes H s before).
Proof.
  intros st st1 offs HG E. unfold find_deletes in E.
  destruct (log_next H st) as [[sa nxt]|] eqn:En; [|discriminate]. cbn [bind] in E.
  destruct (good_next _ _ _ HG En) as [Ga Aa].
  match type of E with (do r2 <- ?sc; _) = _ => destruct sc as [[s2 a2]|] eqn:Esc; [|discriminate] end.
  cbn [bind] in E. injection E as <- _. destruct (scan_loop_good _ _ _ _ _ _ _ _ _ Ga Esc) as [G2 A2].
  split; [assumption|congruence].
Qed.

(* DeleteMulti: whatever it returns - also an error after some passes - the log has lost exactly what it reports *)
Lemma delete_multi_good : forall fuel st remaining accm accs st' del size e,
  Good st -> delete_multi H fuel st remaining accm accs = (st', del, size, e) ->
  Good st' /\ exists nd, del = accm ++ nd /\ abs st' = mkAlog (remove_msgs (live (abs st)) nd) (anext (abs st)).
Proof.
  assert (Hsame : forall st, abs st = mkAlog (remove_msgs (live (abs st)) []) (anext (abs st))).
  { intros st. rewrite remove_msgs_nil. symmetry. apply alog_eta. }
  induction fuel as [|f IH]; intros st remaining accm accs st' del size e HG E; cbn [delete_multi] in E.
  - injection E as <- <- _ _. split; [assumption|]. exists []. rewrite app_nil_r. split; [reflexivity|apply Hsame].
  - destruct remaining as [|o orest].
    + injection E as <- <- _ _. split; [assumption|]. exists []. rewrite app_nil_r. split; [reflexivity|apply Hsame].
    + destruct (log_delete H st (o :: orest)) as [[st1 [d sz]]|er] eqn:Ed.
      * destruct (good_delete _ _ _ _ _ HG Ed) as [G1 A1]. destruct d as [|d0 dr].
        -- injection E as <- <- _ _. split; [assumption|]. exists []. rewrite app_nil_r. split; [reflexivity|exact A1].
        -- destruct (IH _ _ _ _ _ _ _ _ G1 E) as (G' & nd & -> & A'). split; [assumption|].
           exists ((d0 :: dr) ++ nd). split; [now rewrite app_assoc|].
           rewrite A', A1. cbn [live anext]. now rewrite remove_msgs_app.
      * injection E as <- <- _ _. split; [assumption|]. exists []. rewrite app_nil_r. split; [reflexivity|apply Hsame].
Qed.

Lemma delete_multi_bk_good : forall fuel bk st remaining accm accs st' del size e,
  Good st -> delete_multi_bk H fuel bk st remaining accm accs = (st', del, size, e) ->
  Good st' /\ exists nd, del = accm ++ nd /\ abs st' = mkAlog (remove_msgs (live (abs st)) nd) (anext (abs st)).
Proof.
  assert (Hsame : forall st, abs st = mkAlog (remove_msgs (live (abs st)) []) (anext (abs st))).
  { intros st. rewrite remove_msgs_nil. symmetry. apply alog_eta. }
  induction fuel as [|f IH]; intros bk st remaining accm accs st' del size e HG E; cbn [delete_multi_bk] in E.
  - injection E as <- <- _ _. split; [assumption|]. exists []. rewrite app_nil_r. split; [reflexivity|apply Hsame].
  - destruct remaining as [|o orest].
    + injection E as <- <- _ _. split; [assumption|]. exists []. rewrite app_nil_r. split; [reflexivity|apply Hsame].
    + destruct (log_delete H st (o :: orest)) as [[st1 [d sz]]|er] eqn:Ed.
      * destruct (good_delete _ _ _ _ _ HG Ed) as [G1 A1]. destruct d as [|d0 dr].
        -- injection E as <- <- _ _. split; [assumption|]. exists []. rewrite app_nil_r. split; [reflexivity|exact A1].
        -- destruct bk as [|b].
           ++ injection E as <- <- _ _. split; [assumption|]. exists (d0 :: dr). split; [reflexivity|exact A1].
           ++ destruct (IH _ _ _ _ _ _ _ _ _ G1 E) as (G' & nd & -> & A'). split; [assumption|].
              exists ((d0 :: dr) ++ nd). split; [now rewrite app_assoc|].
              rewrite A', A1. cbn [live anext]. now rewrite remove_msgs_app.
      * injection E as <- <- _ _. split; [assumption|]. exists []. rewrite app_nil_r. split; [reflexivity|apply Hsame].
Qed.

Lemma log_delete_multi_bk_good bk st offs st' del size e :
  Good st -> log_delete_multi_bk H bk st offs = (st', del, size, e) ->
  Good st' /\ abs st' = mkAlog (remove_msgs (live (abs st)) del) (anext (abs st)).
Proof.
  intros HG E. unfold log_delete_multi_bk in E. destruct (delete_multi_bk_good _ _ _ _ _ _ _ _ _ _ HG E) as (G' & nd & -> & A').
  split; [assumption|exact A'].
Qed.

Lemma trim_multi_bk_good bk find st st' del size e :
  reads_only find -> Good st -> trim_multi_bk H bk find st = (st', del, size, e) ->
  Good st' /\ abs st' = mkAlog (remove_msgs (live (abs st)) del) (anext (abs st)).
Proof.
  intros HR HG E. unfold trim_multi_bk in E. destruct (find st) as [[st1 offs]|er] eqn:Ef.
  - destruct (HR _ _ _ HG Ef) as [G1 A1]. destruct (log_delete_multi_bk_good _ _ _ _ _ _ _ G1 E) as [G' A'].
    split; [assumption|]. rewrite A', A1. reflexivity.
  - injection E as <- <- _ _. split; [assumption|]. rewrite remove_msgs_nil. symmetry. apply alog_eta.
Qed.

Lemma log_delete_multi_good st offs st' del size e :
  Good st -> log_delete_multi H st offs = (st', del, size, e) ->
  Good st' /\ abs st' = mkAlog (remove_msgs (live (abs st)) del) (anext (abs st)).
Proof.
  intros HG E. unfold log_delete_multi in E. destruct (delete_multi_good _ _ _ _ _ _ _ _ _ HG E) as (G' & nd & -> & A').
  split; [assumption|exact A'].
Qed.

Lemma trim_multi_good find st st' del size e :
  reads_only find -> Good st -> trim_multi H find st = (st', del, size, e) ->
  Good st' /\ abs st' = mkAlog (remove_msgs (live (abs st)) del) (anext (abs st)).
Proof.
  intros HR HG E. unfold trim_multi in E. destruct (find st) as [[st1 offs]|er] eqn:Ef.
  - destruct (HR _ _ _ HG Ef) as [G1 A1]. destruct (log_delete_multi_good _ _ _ _ _ _ G1 E) as [G' A'].
    split; [assumption|]. rewrite A', A1. reflexivity.
  - injection E as <- <- _ _. split; [assumption|]. rewrite remove_msgs_nil. symmetry. apply alog_eta.
Qed.

Lemma compact_both_good st ub db st' del size e :
  Good st -> compact_both st ub db = (st', del, size, e) ->
  Good st' /\ abs st' = mkAlog (remove_msgs (live (abs st)) del) (anext (abs st)).
Proof.
  intros HG E. unfold compact_both in E.
  destruct (trim_multi H (fun s => find_updates H s ub) st) as [[[s1 d1] z1] e1] eqn:E1.
  destruct (trim_multi_good _ _ _ _ _ _ (find_updates_reads ub) HG E1) as [G1 A1].
  destruct e1 as [er|].
  - injection E as <- <- _ _. split; assumption.
  - destruct (trim_multi H (fun s => find_deletes H s db) s1) as [[[s2 d2] z2] e2] eqn:E2.
    destruct (trim_multi_good _ _ _ _ _ _ (find_deletes_reads db) G1 E2) as [G2 A2].
    injection E as <- <- _ _. split; [assumption|]. rewrite A2, A1. cbn [live anext]. now rewrite remove_msgs_app.
Qed.

(* ---------- one step, whole histories *)

Theorem xh_step_good st op :
  Good st -> Good (fst (xh_step st op)) /\ abs (fst (xh_step st op)) = xh_spec_step (abs st) op (snd (xh_step st op)).
Proof.
  intros HG. destruct op; cbn [xh_step].
  - pose proof (hstep_good H st op HG) as P. destruct (hstep H st op) as [s r]. exact P.
  - destruct (log_delete_multi H st offs) as [[[s d] z] e] eqn:E. cbn [xdel fst snd xh_spec_step].
    exact (log_delete_multi_good _ _ _ _ _ _ HG E).
  - destruct (trim_multi H (fun s => find_by_offset H s before) st) as [[[s d] z] e] eqn:E. cbn [xdel fst snd xh_spec_step].
    exact (trim_multi_good _ _ _ _ _ _ (find_by_offset_reads before) HG E).
  - destruct (trim_multi H (fun s => find_by_count H s max) st) as [[[s d] z] e] eqn:E. cbn [xdel fst snd xh_spec_step].
    exact (trim_multi_good _ _ _ _ _ _ (find_by_count_reads max) HG E).
  - destruct (trim_multi H (fun s => find_by_size H s sz) st) as [[[s d] z] e] eqn:E. cbn [xdel fst snd xh_spec_step].
    exact (trim_multi_good _ _ _ _ _ _ (find_by_size_reads sz) HG E).
  - destruct (trim_multi H (fun s => find_by_age H s before) st) as [[[s d] z] e] eqn:E. cbn [xdel fst snd xh_spec_step].
    exact (trim_multi_good _ _ _ _ _ _ (find_by_age_reads before) HG E).
  - destruct (trim_multi H (fun s => find_updates H s before) st) as [[[s d] z] e] eqn:E. cbn [xdel fst snd xh_spec_step].
    exact (trim_multi_good _ _ _ _ _ _ (find_updates_reads before) HG E).
  - destruct (trim_multi H (fun s => find_deletes H s before) st) as [[[s d] z] e] eqn:E. cbn [xdel fst snd xh_spec_step].
    exact (trim_multi_good _ _ _ _ _ _ (find_deletes_reads before) HG E).
  - destruct (compact_both st updates_before deletes_before) as [[[s d] z] e] eqn:E. cbn [xdel fst snd xh_spec_step].
    exact (compact_both_good _ _ _ _ _ _ _ HG E).
  - destruct (log_delete_multi_bk H bk st offs) as [[[s d] z] e] eqn:E. cbn [xdel fst snd xh_spec_step].
    exact (log_delete_multi_bk_good _ _ _ _ _ _ _ HG E).
  - destruct (trim_multi_bk H bk (fun s => find_by_offset H s before) st) as [[[s d] z] e] eqn:E. cbn [xdel fst snd xh_spec_step].
    exact (trim_multi_bk_good _ _ _ _ _ _ _ (find_by_offset_reads before) HG E).
  - cbn [fst snd xh_spec_step]. split; [assumption|reflexivity].
Qed.

Theorem xhistory_refines ops : forall st,
  Good st -> Good (fst (xh_run st ops)) /\ abs (fst (xh_run st ops)) = xh_spec_run (abs st) ops (snd (xh_run st ops)).
Proof.
  induction ops as [|op r IH]; intros st HG; cbn [xh_run]; [split; [assumption|reflexivity]|].
  destruct (xh_step st op) as [s1 o] eqn:E1. pose proof (xh_step_good st op HG) as [G1 A1]. rewrite E1 in G1, A1. cbn [fst snd] in G1, A1.
  destruct (xh_run s1 r) as [s2 os] eqn:E2. pose proof (IH s1 G1) as [G2 A2]. rewrite E2 in G2, A2. cbn [fst snd] in *.
  split; [assumption|]. rewrite A2, A1. reflexivity.
Qed.

(* the abstract run never invents a message: everything live at the end was live at the start or was published by
   one of the calls, and NextOffset never moves back *)
Lemma xh_spec_step_next a op o : anext a <= anext (xh_spec_step a op o).
Proof.
  destruct op, o; cbn [xh_spec_step anext]; try lia. apply spec_step_next.
Qed.

Theorem xh_spec_run_next ops : forall outs a, anext a <= anext (xh_spec_run a ops outs).
Proof.
  induction ops as [|op r IH]; intros outs a; cbn [xh_spec_run]; [lia|]. destruct outs as [|o os]; [lia|].
  pose proof (xh_spec_step_next a op o). pose proof (IH os (xh_spec_step a op o)). lia.
Qed.

End XHistory.
