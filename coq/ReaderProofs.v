(* ReaderProofs.v — log_reader.go Consume / Get on one segment, characterised
   against the record list of the segment. *)
From KV Require Import Base Model ListAux SearchProofs SegProofs.
From Coq Require Import ZifyBool ZifyNat.

Lemma in_znth {A} (l : list A) (x : A) : In x l -> exists i, znth l i = Some x.
Proof.
  intros Hin. apply In_nth_error in Hin. destruct Hin as [n Hn]. exists (Z.of_nat n).
  unfold znth. destruct (Z.of_nat n <? 0) eqn:E; [lia|]. now rewrite Nat2Z.id.
Qed.

Lemma znth_in {A} (l : list A) i (x : A) : znth l i = Some x -> In x l.
Proof. unfold znth. destruct (i <? 0); [discriminate|]. apply nth_error_In. Qed.

Lemma sorted_lt_le_last keys d a : sorted_lt keys -> In a keys -> a <= last keys d.
Proof.
  intros Hs Hin. assert (Hne : keys <> []) by (destruct keys; [contradiction|discriminate]).
  destruct (in_znth _ _ Hin) as [i Hi]. pose proof (znth_some _ _ _ Hi) as Hr.
  pose proof (znth_last keys d Hne) as Hl.
  destruct (Z.eq_dec i (zlen keys - 1)) as [->|Hne'].
  - rewrite Hl in Hi. injection Hi as <-. lia.
  - assert (a < last keys d) by (apply (Hs i (zlen keys - 1)); auto; lia). lia.
Qed.

Section ReaderProofs.
Variable H : bytes -> Z.

(* the index of a segment agrees with its log file; records are sorted, offsets non-negative *)
Definition seg_ok (s : seg) (items : list item) : Prop :=
  items_match (sver s) (hdr_size (sver s)) (srecs s) items /\ recs_sorted (srecs s)
  /\ (forall m, In m (srecs s) -> 0 <= moff m).

Definition ge_filter (off : Z) (recs : list msg) : list msg :=
  filter (fun x => off <=? moff x) recs.

Definition recs_next (s : seg) : Z :=
  match last_opt (srecs s) with Some m => moff m + 1 | None => sbase s end.

Lemma seg_ok_offs_sorted s items : seg_ok s items -> offs_sorted items.
Proof. intros [[Ho _] [Hs _]]. unfold offs_sorted. rewrite Ho. exact Hs. Qed.

Lemma seg_ok_nil_items s : seg_ok s [] -> srecs s = [].
Proof. intros [[Ho _] _]. destruct (srecs s); [reflexivity|discriminate]. Qed.

Lemma seg_ok_nil_recs s items : seg_ok s items -> srecs s = [] -> items = [].
Proof. intros [[Ho _] _] E. rewrite E in Ho. destruct items; [reflexivity|discriminate]. Qed.

Lemma seg_ok_item_rec s items it :
  seg_ok s items -> In it items -> exists m, In m (srecs s) /\ moff m = ioff it.
Proof.
  intros [[Ho _] _] Hin. assert (Hx : In (ioff it) (map moff (srecs s))) by (rewrite <- Ho; now apply in_map).
  apply in_map_iff in Hx. destruct Hx as (m & Hm & Hi). eauto.
Qed.

Lemma seg_ok_rec_item s items m :
  seg_ok s items -> In m (srecs s) -> exists it, In it items /\ ioff it = moff m.
Proof.
  intros [[Ho _] _] Hin. assert (Hx : In (moff m) (map ioff items)) by (rewrite Ho; now apply in_map).
  apply in_map_iff in Hx. destruct Hx as (it & Hm & Hi). eauto.
Qed.

Lemma idx_next_recs s items : seg_ok s items -> idx_next s items = recs_next s.
Proof.
  intros [[Ho _] _]. unfold idx_next, recs_next.
  assert (E : option_map ioff (last_opt items) = option_map moff (last_opt (srecs s)))
    by (rewrite <- !last_opt_map, Ho; reflexivity).
  destruct (last_opt items), (last_opt (srecs s)); cbn in E; try discriminate; [|reflexivity].
  injection E as ->. reflexivity.
Qed.

Lemma item_pos_nonneg s items it : seg_ok s items -> In it items -> 0 <= ipos it.
Proof.
  intros [Hm _] Hin. pose proof (in_items_pos_ge _ _ _ _ _ Hm Hin). destruct (sver s); cbn in *; lia.
Qed.

Lemma item_off_nonneg s items it : seg_ok s items -> In it items -> 0 <= ioff it.
Proof.
  intros Hok Hin. destruct (seg_ok_item_rec _ _ _ Hok Hin) as (m & Hm & <-).
  destruct Hok as (_ & _ & Hnn). now apply Hnn.
Qed.

Lemma item_le_last s items d it : seg_ok s items -> In it items -> ioff it <= ioff (last items d).
Proof.
  intros Hok Hin.
  pose proof (sorted_lt_le_last (map ioff items) (ioff d) (ioff it)
                (seg_ok_offs_sorted _ _ Hok) (in_map ioff _ _ Hin)) as Hle.
  now rewrite last_map' in Hle.
Qed.

(* index.Consume for every offset except OffsetNewest, under the segment invariant *)
Lemma index_consume_any s items off first rest :
  seg_ok s items -> items = first :: rest -> off <> OffsetNewest ->
  let lst := last items first in
  if ioff lst <? off then index_consume items off = Err EAfterEnd
  else exists it, first_ge items off = Some it /\ index_consume items off = Ok (ipos it, ipos lst).
Proof.
  intros Hok -> Hnew. cbn zeta.
  pose proof (seg_ok_offs_sorted _ _ Hok) as Hs.
  assert (Hf0 : 0 <= ioff first) by (eapply item_off_nonneg; [eassumption|left; reflexivity]).
  assert (Hl0 : 0 <= ioff (last (first :: rest) first)).
  { eapply item_off_nonneg; [eassumption|]. apply last_in. discriminate. }
  destruct (Z.eq_dec off OffsetOldest) as [->|Hold].
  - unfold OffsetOldest in *. destruct (ioff (last (first :: rest) first) <? -2) eqn:E; [lia|].
    exists first. split; [|reflexivity]. unfold first_ge. cbn. destruct (-2 <=? ioff first) eqn:E2; [reflexivity|lia].
  - pose proof (index_consume_spec (first :: rest) off Hs) as Hspec.
    assert (Hnr : ~ is_relative off) by (unfold is_relative; tauto).
    specialize (Hspec Hnr). cbn zeta in Hspec. exact Hspec.
Qed.

(* ---------- reader.Consume *)

Theorem reader_consume_spec s items hd off max :
  seg_ok s items -> 1 <= max -> off <> OffsetNewest ->
  match ge_filter off (srecs s) with
  | _ :: _ =>
    let ms := firstn (Z.to_nat max) (ge_filter off (srecs s)) in
    exists m, last_opt ms = Some m /\ reader_consume s items hd off max = Ok (moff m + 1, ms)
  | [] =>
    reader_consume s items hd off max =
    if hd && (off <=? recs_next s) then Ok (recs_next s, [])
    else Err (match srecs s with [] => EIdxEmpty | _ => EAfterEnd end)
  end.
Proof.
  intros Hok Hmax Hnew.
  unfold reader_consume. destruct (off =? OffsetNewest) eqn:En; [lia|].
  rewrite <- (idx_next_recs s items Hok).
  destruct items as [|first rest] eqn:Eitems.
  - (* empty segment *)
    rewrite (seg_ok_nil_items s Hok). cbn [ge_filter filter].
    unfold ridx_consume. cbn [index_consume ierr_eqb orb andb].
    destruct hd; cbn [andb]; [|reflexivity].
    destruct (off <=? idx_next s []) eqn:E; cbn [bind]; reflexivity.
  - pose proof (index_consume_any s (first :: rest) off first rest Hok eq_refl Hnew) as Hic. cbn zeta in Hic.
    set (lst := last (first :: rest) first) in *.
    destruct (ioff lst <? off) eqn:Elt.
    + (* after the end of this segment *)
      assert (Hnil : ge_filter off (srecs s) = []).
      { apply filter_nil_iff. intros m Hm.
        destruct (seg_ok_rec_item _ _ _ Hok Hm) as (it & Hit & Hio).
        assert (ioff it <= ioff lst) by (apply (item_le_last s (first :: rest) first it Hok Hit)).
        lia. }
      rewrite Hnil. unfold ridx_consume. rewrite Hic. cbn [ierr_eqb orb].
      assert (Hrne : srecs s <> []).
      { intro E. pose proof (seg_ok_nil_recs _ _ Hok E). discriminate. }
      destruct (srecs s) as [|m0 r0] eqn:Er; [congruence|].
      destruct hd; cbn [andb]; [|reflexivity].
      destruct (off <=? idx_next s (first :: rest)) eqn:E; cbn [bind]; [|reflexivity].
      destruct (-1 =? -1) eqn:E1; [reflexivity|lia].
    + destruct Hic as (it & Hfg & Hic).
      destruct (first_ge_in _ _ _ Hfg) as [Hin Hge].
      destruct (seg_ok_item_rec _ _ _ Hok Hin) as (m & Hm & Hmo).
      assert (Hne : ge_filter off (srecs s) <> []).
      { intro E. pose proof (proj1 (filter_nil_iff _ _) E m Hm) as Hf. cbn in Hf. lia. }
      destruct (ge_filter off (srecs s)) as [|g0 gr] eqn:Eg; [congruence|].
      cbn zeta. unfold ridx_consume. rewrite Hic. cbn [bind].
      pose proof (item_pos_nonneg _ _ _ Hok Hin) as Hp0.
      destruct (ipos it =? -1) eqn:E1; [lia|].
      destruct Hok as (Hmatch & Hsort & Hnn). subst lst.
      rewrite (messages_consume_spec s (first :: rest) off it max Hmatch Hsort Hfg ltac:(lia) first).
      cbn [bind]. fold (ge_filter off (srecs s)). rewrite Eg.
      assert (Hfn : firstn (Z.to_nat max) (g0 :: gr) <> []) by (apply firstn_nonempty; [discriminate|lia]).
      destruct (last_opt (firstn (Z.to_nat max) (g0 :: gr))) as [ml|] eqn:El.
      * exists ml. split; reflexivity.
      * apply last_opt_none in El. contradiction.
Qed.

(* OffsetNewest *)
Lemma reader_consume_newest s items hd max :
  seg_ok s items -> reader_consume s items hd OffsetNewest max = Ok (recs_next s, []).
Proof. intros Hok. unfold reader_consume. cbn. now rewrite (idx_next_recs s items Hok). Qed.

(* ---------- reader.Get *)

Definition find_rec (recs : list msg) (off : Z) : option msg := find (fun x => moff x =? off) recs.

Lemma find_item_rec s items off :
  seg_ok s items ->
  match find_item items off with
  | Some it => exists m, find_rec (srecs s) off = Some m /\ read_at s (ipos it) = Ok m
  | None => find_rec (srecs s) off = None
  end.
Proof.
  intros Hok. destruct (find_item items off) as [it|] eqn:Ef.
  - pose proof Ef as Ef'. unfold find_item in Ef'. apply find_some in Ef'. destruct Ef' as [Hin _].
    destruct Hok as (Hm & _).
    destruct (read_at_item (sver s) _ _ _ _ Hm Hin) as (m & Hrd & Hfind).
    exists m. split; [apply Hfind; exact Ef|exact Hrd].
  - unfold find_rec. destruct (find (fun x => moff x =? off) (srecs s)) as [m|] eqn:Er; [|reflexivity].
    exfalso. apply find_some in Er. destruct Er as [Hin Heq].
    destruct (seg_ok_rec_item _ _ _ Hok Hin) as (it & Hit & Hio).
    pose proof (find_none _ _ Ef it Hit) as Hn. cbn in Hn. lia.
Qed.

Theorem reader_get_spec s items hd off :
  seg_ok s items -> 0 <= off ->
  match find_rec (srecs s) off with
  | Some m => reader_get s items hd off = Ok m
  | None =>
    exists e, reader_get s items hd off = Err e /\
    match srecs s with
    | [] => e = EIdxEmpty
    | first :: _ =>
      if off <? moff first then e = EBeforeStart
      else if recs_next s <=? off then e = (if hd then EInvalidOffset else EAfterEnd)
      else e = EOffNotFound
    end
  end.
Proof.
  intros Hok Hoff.
  pose proof (find_item_rec s items off Hok) as Hfi.
  pose proof (index_get_spec items off (seg_ok_offs_sorted _ _ Hok)) as Hspec.
  assert (Hnr : ~ is_relative off) by (unfold is_relative, OffsetOldest, OffsetNewest; lia).
  specialize (Hspec Hnr).
  unfold reader_get, ridx_get.
  destruct items as [|first rest] eqn:Eitems.
  - rewrite (seg_ok_nil_items s Hok) in *. cbn [find_rec find]. rewrite Hspec. cbn [ierr_eqb andb bind].
    exists EIdxEmpty. split; reflexivity.
  - cbn zeta in Hspec. set (lst := last (first :: rest) first) in *.
    assert (Hrne : srecs s <> []).
    { intro E. pose proof (seg_ok_nil_recs _ _ Hok E). discriminate. }
    assert (Hnext : recs_next s = ioff lst + 1).
    { rewrite <- (idx_next_recs s (first :: rest) Hok).
      unfold idx_next. rewrite (last_opt_last (first :: rest) first) by discriminate. reflexivity. }
    destruct (srecs s) as [|m0 r0] eqn:Er; [congruence|].
    assert (Hfirst : ioff first = moff m0).
    { destruct Hok as ((Ho & _) & _). rewrite Er in Ho. cbn in Ho. now injection Ho. }
    destruct (off <? ioff first) eqn:E1.
    + (* before start: no record can match *)
      assert (Hnone : find_rec (m0 :: r0) off = None).
      { destruct (find_item (first :: rest) off) as [it|] eqn:Ef; [|exact Hfi].
        exfalso. apply find_some in Ef. destruct Ef as [Hin Heq].
        pose proof (seg_ok_offs_sorted _ _ Hok) as Hs.
        destruct Hin as [<-|Hin]; [lia|].
        destruct (in_znth _ _ Hin) as [i Hi]. pose proof (znth_some _ _ _ Hi).
        assert (ioff first < ioff it).
        { apply (Hs 0 (i + 1)); [reflexivity| |lia]. cbn [map]. rewrite znth_cons_pos by lia.
          replace (i + 1 - 1) with i by lia. rewrite znth_map, Hi. reflexivity. }
        lia. }
      rewrite Hnone, Hspec. cbn [ierr_eqb andb bind]. exists EBeforeStart. split; [reflexivity|].
      rewrite <- Hfirst, E1. reflexivity.
    + destruct (ioff lst <? off) eqn:E2.
      * assert (Hnone : find_rec (m0 :: r0) off = None).
        { destruct (find_item (first :: rest) off) as [it|] eqn:Ef; [|exact Hfi].
          exfalso. apply find_some in Ef. destruct Ef as [Hin Heq].
          pose proof (item_le_last s (first :: rest) first it Hok Hin) as Hle. fold lst in Hle.
          lia. }
        rewrite Hnone, Hspec. cbn [ierr_eqb andb].
        rewrite (idx_next_recs s (first :: rest) Hok), Hnext.
        destruct hd; cbn [andb].
        -- destruct (ioff lst + 1 <=? off) eqn:E3; [|lia]. cbn [bind]. exists EInvalidOffset. split; [reflexivity|].
           rewrite <- Hfirst, E1.
           destruct (recs_next s <=? off) eqn:E4; [reflexivity|lia].
        -- cbn [bind]. exists EAfterEnd. split; [reflexivity|].
           rewrite <- Hfirst, E1.
           destruct (ioff lst + 1 <=? off) eqn:E4; [reflexivity|lia].
      * destruct (find_item (first :: rest) off) as [it|] eqn:Ef.
        -- destruct Hfi as (m & Hfr & Hrd). rewrite Hfr, Hspec. cbn [bind]. exact Hrd.
        -- rewrite Hfi, Hspec. cbn [ierr_eqb andb bind]. exists EOffNotFound. split; [reflexivity|].
           rewrite <- Hfirst, E1.
           destruct (recs_next s <=? off) eqn:E4; [lia|reflexivity].
Qed.

(* relative offsets of Get on a non-empty segment *)
Lemma reader_get_oldest s items hd m r :
  seg_ok s items -> srecs s = m :: r -> reader_get s items hd OffsetOldest = Ok m.
Proof.
  intros Hok Er. destruct Hok as (Hm & _). rewrite Er in Hm.
  destruct (items_match_cons _ _ _ _ _ Hm) as (i0 & ir & -> & Ho & Hp & Hr).
  unfold reader_get, ridx_get. cbn [index_get]. cbn. unfold read_at. rewrite Er, Hp. cbn.
  now rewrite Z.eqb_refl.
Qed.

Lemma reader_get_newest s items hd d :
  seg_ok s items -> srecs s <> [] -> reader_get s items hd OffsetNewest = Ok (last (srecs s) d).
Proof.
  intros Hok Hne.
  destruct items as [|first rest] eqn:Ei.
  { pose proof (seg_ok_nil_items _ Hok). contradiction. }
  unfold reader_get, ridx_get. rewrite index_get_newest. cbn [bind].
  (* the last item reads the last record *)
  destruct Hok as (Hm & Hs & _).
  assert (Hin : In (last (first :: rest) first) (first :: rest)) by (apply last_in; discriminate).
  destruct (read_at_item (sver s) _ _ _ _ Hm Hin) as (m & Hrd & Hfind).
  unfold read_at. rewrite Hrd. f_equal.
  (* m has the offset of the last item = offset of the last record; sorted => it is the last record *)
  specialize (Hfind (ioff (last (first :: rest) first))).
  assert (Hfi : find_item (first :: rest) (ioff (last (first :: rest) first)) = Some (last (first :: rest) first)).
  { destruct (in_znth _ _ Hin) as [i Hi].
    apply (find_item_unique (first :: rest) i); [|exact Hi|reflexivity].
    unfold offs_sorted. destruct Hm as [Ho _]. rewrite Ho. exact Hs. }
  specialize (Hfind Hfi). apply find_some in Hfind. destruct Hfind as [Hmin Hmo].
  (* uniqueness of offsets in a sorted list *)
  assert (Hlast_in : In (last (srecs s) d) (srecs s)) by (apply last_in; assumption).
  assert (Hoff : moff (last (srecs s) d) = ioff (last (first :: rest) first)).
  { destruct Hm as [Ho _].
    rewrite <- (last_map' moff (srecs s) d).
    rewrite <- (last_map' ioff (first :: rest) first).
    rewrite Ho. apply last_nonempty_default. destruct (srecs s); [congruence|discriminate]. }
  (* two records with the same offset in a strictly sorted list are equal *)
  destruct (in_znth _ _ Hmin) as [i Hi]. destruct (in_znth _ _ Hlast_in) as [j Hj].
  destruct (Z.lt_trichotomy i j) as [Hlt|[->|Hgt]].
  - assert (moff m < moff (last (srecs s) d)).
    { apply (Hs i j); [rewrite znth_map, Hi; reflexivity|rewrite znth_map, Hj; reflexivity|lia]. }
    lia.
  - congruence.
  - assert (moff (last (srecs s) d) < moff m).
    { apply (Hs j i); [rewrite znth_map, Hj; reflexivity|rewrite znth_map, Hi; reflexivity|lia]. }
    lia.
Qed.

End ReaderProofs.
