(* DurableProofs.v — C06 on the file table: every file but the two of the writing segment is entirely on stable
   storage at all times (rollover fsyncs the retiring segment before the new one is created); after writer.Sync
   (Sync, Close, a Publish with AutoSync) every file is; and whatever is written later, a power loss leaves of every
   file at least the bytes it had when that Sync returned. *)
From KV Require Import Base Model ListAux PublishProofs Durable.
From Coq Require Import ZifyBool ZifyNat.

Lemma fname_eqb_eq a b : fname_eqb a b = true <-> a = b.
Proof. destruct a, b; cbn; split; intros E; try discriminate; try reflexivity; try (f_equal; lia); injection E; lia. Qed.

Lemma fname_eqb_refl a : fname_eqb a a = true.
Proof. now apply fname_eqb_eq. Qed.

Definition sane (t : ftable) : Prop := forall x, In x t -> 0 <= durable_len x <= flen x.
Definition all_durable (t : ftable) : Prop := forall x, In x t -> durable_len x = flen x.
Definition sealed_durable (hb : Z) (t : ftable) : Prop :=
  forall x, In x t -> fnm x <> FLog hb -> fnm x <> FIdx hb -> durable_len x = flen x.

Definition op_nonneg (o : dop) : Prop := match o with DCreate _ n | DWrite _ n => 0 <= n | DFsync _ => True end.

(* ---------- one step: names stay, lengths and fsynced lengths never shrink, new files come at the end *)

Definition le_file (x y : fstat) : Prop := fnm y = fnm x /\ flen x <= flen y /\ durable_len x <= durable_len y.

Definition grows (t t' : ftable) : Prop := exists t1 ext, t' = t1 ++ ext /\ Forall2 le_file t t1.

Lemma le_file_refl x : le_file x x.
Proof. repeat split; lia. Qed.

Lemma Forall2_refl_le t : Forall2 le_file t t.
Proof. induction t; constructor; [apply le_file_refl|assumption]. Qed.

Lemma grows_refl t : grows t t.
Proof. exists t, []. split; [now rewrite app_nil_r|apply Forall2_refl_le]. Qed.

Lemma Forall2_le_trans a b c : Forall2 le_file a b -> Forall2 le_file b c -> Forall2 le_file a c.
Proof.
  intros H1. revert c. induction H1 as [|x y a b Hxy _ IH]; intros c H2; inversion H2; subst; constructor.
  - destruct Hxy as (A & B & C). match goal with H : le_file y _ |- _ => destruct H as (A' & B' & C') end. repeat split; [congruence|lia|lia].
  - apply IH. assumption.
Qed.

Lemma grows_trans a b c : grows a b -> grows b c -> grows a c.
Proof.
  intros (b1 & e1 & -> & H1) (c1 & e2 & -> & H2).
  apply Forall2_app_inv_l in H2. destruct H2 as (c11 & c12 & H21 & H22 & ->).
  exists c11, (c12 ++ e2). split; [now rewrite app_assoc|]. eapply Forall2_le_trans; eassumption.
Qed.

Lemma upd_grows t f g : (forall x, In x t -> le_file x (g x)) -> grows t (upd_file t f g).
Proof.
  intros Hg. exists (upd_file t f g), []. split; [now rewrite app_nil_r|]. unfold upd_file.
  induction t as [|x t IH]; cbn [map]; constructor.
  - destruct (fname_eqb (fnm x) f); [apply Hg; now left|apply le_file_refl].
  - apply IH. intros y Hy. apply Hg. now right.
Qed.

Lemma d_exec_grows t o : sane t -> op_nonneg o -> grows t (d_exec t o).
Proof.
  intros Hs Ho. destruct o as [f n|f n|f]; cbn [d_exec].
  - exists t, [mkF f n (Some 0)]. split; [reflexivity|apply Forall2_refl_le].
  - apply upd_grows. intros x Hx. cbn in Ho. split; [reflexivity|]. split; cbn [fnm flen]; [lia|]. unfold durable_len. cbn [fsyn]. lia.
  - apply upd_grows. intros x Hx. pose proof (Hs x Hx) as Hx'. split; [reflexivity|]. split; cbn [fnm flen]; [lia|]. unfold durable_len in *. cbn [fsyn flen]. lia.
Qed.

Lemma d_exec_sane t o : sane t -> op_nonneg o -> sane (d_exec t o).
Proof.
  intros Hs Ho. destruct o as [f n|f n|f]; cbn [d_exec]; intros y Hy.
  - apply in_app_or in Hy. destruct Hy as [Hy|[<-|[]]]; [now apply Hs|]. cbn in Ho. unfold durable_len. cbn. lia.
  - unfold upd_file in Hy. apply in_map_iff in Hy. destruct Hy as (x & <- & Hx). pose proof (Hs x Hx).
    destruct (fname_eqb (fnm x) f); [|assumption]. cbn in Ho. unfold durable_len in *. cbn [fsyn flen]. lia.
  - unfold upd_file in Hy. apply in_map_iff in Hy. destruct Hy as (x & <- & Hx). pose proof (Hs x Hx).
    destruct (fname_eqb (fnm x) f); [|assumption]. unfold durable_len in *. cbn [fsyn flen]. lia.
Qed.

Lemma d_run_sane_grows : forall prog t, sane t -> Forall op_nonneg prog -> sane (d_run t prog) /\ grows t (d_run t prog).
Proof.
  induction prog as [|o prog IH]; intros t Hs Hn; [split; [assumption|apply grows_refl]|].
  pose proof (Forall_inv Hn) as Ho. pose proof (Forall_inv_tail Hn) as Hn'.
  change (d_run t (o :: prog)) with (d_run (d_exec t o) prog).
  destruct (IH (d_exec t o) (d_exec_sane t o Hs Ho) Hn') as [A B]. split; [exact A|].
  eapply grows_trans; [apply (d_exec_grows t o Hs Ho)|exact B].
Qed.

(* ---------- the invariant of the protocol *)

Lemma write_keeps_sealed hb t f n : (f = FLog hb \/ f = FIdx hb) -> sealed_durable hb t -> sealed_durable hb (d_exec t (DWrite f n)).
Proof.
  intros Hf Hs y Hy N1 N2. cbn [d_exec] in Hy. unfold upd_file in Hy. apply in_map_iff in Hy. destruct Hy as (x & E & Hx).
  destruct (fname_eqb (fnm x) f) eqn:Ef.
  - apply fname_eqb_eq in Ef. subst y. cbn [fnm] in N1, N2. exfalso. destruct Hf; congruence.
  - subst y. now apply Hs.
Qed.

Lemma fsync_keeps_sealed hb t f : sealed_durable hb t -> sealed_durable hb (d_exec t (DFsync f)).
Proof.
  intros Hs y Hy N1 N2. cbn [d_exec] in Hy. unfold upd_file in Hy. apply in_map_iff in Hy. destruct Hy as (x & E & Hx).
  destruct (fname_eqb (fnm x) f); subst y; [reflexivity|now apply Hs].
Qed.

Lemma sync_all_durable hb t : sealed_durable hb t -> all_durable (d_run t (sync_ops hb)).
Proof.
  intros Hs y Hy. unfold sync_ops, d_run in Hy. cbn [fold_left d_exec] in Hy. unfold upd_file in Hy.
  apply in_map_iff in Hy. destruct Hy as (x1 & E1 & Hx1). apply in_map_iff in Hx1. destruct Hx1 as (x & E & Hx).
  destruct (fname_eqb (fnm x) (FLog hb)) eqn:El.
  - subst x1. cbn [fnm] in E1. destruct (fname_eqb (fnm x) (FIdx hb)); subst y; reflexivity.
  - subst x1. destruct (fname_eqb (fnm x) (FIdx hb)) eqn:Ei; subst y; [reflexivity|].
    apply Hs; [exact Hx| |]; intro E; rewrite E, fname_eqb_refl in *; discriminate.
Qed.

Lemma all_sealed hb t : all_durable t -> sealed_durable hb t.
Proof. intros Ha y Hy _ _. now apply Ha. Qed.

Lemma appends_keep_sealed hb : forall sizes t, sealed_durable hb t ->
  sealed_durable hb (d_run t (flat_map (fun s => [DWrite (FLog hb) (fst s); DWrite (FIdx hb) (snd s)]) sizes)).
Proof.
  induction sizes as [|s sizes IH]; intros t Hs; [exact Hs|]. cbn [flat_map app d_run fold_left].
  apply IH. apply write_keeps_sealed; [now right|]. apply write_keeps_sealed; [now left|exact Hs].
Qed.

Lemma d_run_app t a b : d_run t (a ++ b) = d_run (d_run t a) b.
Proof. unfold d_run. apply fold_left_app. Qed.

Theorem kind_keeps_sealed hb k t :
  sealed_durable hb t -> sealed_durable (snd (kind_ops hb k)) (d_run t (fst (kind_ops hb k))).
Proof.
  intros Hs. destruct k as [sizes| |b hl hi]; cbn [kind_ops fst snd].
  - now apply appends_keep_sealed.
  - apply all_sealed. now apply sync_all_durable.
  - rewrite d_run_app. pose proof (sync_all_durable hb t Hs) as Ha. set (t1 := d_run t (sync_ops hb)) in *.
    intros y Hy N1 N2. cbn [d_run fold_left d_exec] in Hy. rewrite <- app_assoc in Hy. apply in_app_or in Hy.
    destruct Hy as [Hy|[<-|[<-|[]]]]; [now apply Ha| |]; cbn [fnm] in N1, N2; congruence.
Qed.

Theorem kinds_keep_sealed : forall ks hb t,
  sealed_durable hb t -> sealed_durable (snd (kinds_ops hb ks)) (d_run t (fst (kinds_ops hb ks))).
Proof.
  induction ks as [|k ks IH]; intros hb t Hs; [exact Hs|]. cbn [kinds_ops].
  destruct (kind_ops hb k) as [o1 hb1] eqn:E1. destruct (kinds_ops hb1 ks) as [o2 hb2] eqn:E2. cbn [fst snd].
  rewrite d_run_app. pose proof (kind_keeps_sealed hb k t Hs) as H1. rewrite E1 in H1. cbn [fst snd] in H1.
  specialize (IH hb1 _ H1). rewrite E2 in IH. exact IH.
Qed.

(* ---------- what a power loss leaves *)

Definition kind_nonneg (k : dkind) : Prop :=
  match k with
  | KAppend sizes => Forall (fun s => 0 <= fst s /\ 0 <= snd s) sizes
  | KSync => True
  | KRoll _ hl hi => 0 <= hl /\ 0 <= hi
  end.

Lemma kind_ops_nonneg hb k : kind_nonneg k -> Forall op_nonneg (fst (kind_ops hb k)).
Proof.
  destruct k as [sizes| |b hl hi]; cbn [kind_ops fst kind_nonneg]; intros Hk.
  - induction Hk as [|s sizes [A B] _ IH]; [constructor|]. cbn [flat_map app]. constructor; [exact A|]. constructor; [exact B|exact IH].
  - repeat constructor.
  - destruct Hk. repeat constructor; assumption.
Qed.

Lemma kinds_ops_nonneg : forall ks hb, Forall kind_nonneg ks -> Forall op_nonneg (fst (kinds_ops hb ks)).
Proof.
  induction ks as [|k ks IH]; intros hb Hk; [constructor|]. inversion Hk as [|? ? H1 H2]; subst. cbn [kinds_ops].
  pose proof (kind_ops_nonneg hb k H1) as A. destruct (kind_ops hb k) as [o1 hb1]. specialize (IH hb1 H2).
  destruct (kinds_ops hb1 ks) as [o2 hb2]. cbn [fst] in *. apply Forall_app. split; assumption.
Qed.

Lemma cut_keeps_durable : forall a t1 c1,
  all_durable a -> Forall2 le_file a t1 ->
  Forall2 (fun x y => fnm y = fnm x /\ durable_len x <= flen y <= flen x) t1 c1 ->
  Forall2 (fun x y => fnm y = fnm x /\ flen x <= flen y) a c1.
Proof.
  intros a t1 c1 Ha HF. revert c1. induction HF as [|x y a b Hxy _ IH]; intros c1 H1; inversion H1 as [|? z ? c1' Hyz Hrest]; subst; constructor.
  - destruct Hxy as (A & B & C). destruct Hyz as (A' & B'). split; [congruence|].
    pose proof (Ha x (or_introl eq_refl)) as Hx. lia.
  - apply IH; [|assumption]. intros w Hw. apply Ha. now right.
Qed.

(* the bytes every file had when writer.Sync returned are still there after a power loss at ANY later point:
   t_ack is the table when the Sync returned; ks are the steps taken afterwards; tcut what the power loss leaves *)
Theorem acked_lengths_survive t hb ks tcut :
  sane t -> sealed_durable hb t -> Forall kind_nonneg ks ->
  let t_ack := d_run t (sync_ops hb) in
  cut_ok (d_run t_ack (fst (kinds_ops hb ks))) tcut ->
  exists kept newer, tcut = kept ++ newer /\
    Forall2 (fun x y => fnm y = fnm x /\ flen x <= flen y) t_ack kept.
Proof.
  intros Hsane Hs Hk t_ack Hcut.
  assert (Hack : all_durable t_ack) by (now apply sync_all_durable).
  assert (Hsane1 : sane t_ack).
  { apply d_run_sane_grows; [exact Hsane|]. repeat constructor. }
  destruct (d_run_sane_grows (fst (kinds_ops hb ks)) t_ack Hsane1 (kinds_ops_nonneg ks hb Hk)) as [_ (t1 & ext & E & HF)].
  rewrite E in Hcut. unfold cut_ok in Hcut. apply Forall2_app_inv_l in Hcut. destruct Hcut as (c1 & c2 & H1 & _ & ->).
  exists c1, c2. split; [reflexivity|]. exact (cut_keeps_durable t_ack t1 c1 Hack HF H1).
Qed.

(* ---------- the steps of the API calls satisfy the premises *)

Lemma rec_size_nonneg v m : 0 <= rec_size v m.
Proof. unfold rec_size, rec_overhead, zlen. destruct v; lia. Qed.

Lemma item_size_nonneg p : 0 <= item_size p.
Proof. unfold item_size. destruct (ptimes p), (pkeys p); lia. Qed.

Lemma publish_kinds_nonneg st ms : Forall kind_nonneg (publish_kinds st ms).
Proof.
  unfold publish_kinds. destruct (opened st) as [c|]; [|constructor]. destruct (cro c); [constructor|].
  destruct (last_opt (segs st)) as [hd|]; [|constructor]. apply Forall_app. split.
  - destruct (needs_rollover c hd); [|constructor]. constructor; [|constructor]. cbn. destruct (cnewver c); cbn; lia.
  - destruct (existsb msg_too_big ms); [constructor|]. constructor.
    + cbn. apply Forall_forall. intros s Hs. apply in_map_iff in Hs. destruct Hs as (m & <- & _). cbn [fst snd].
      split; [apply rec_size_nonneg|apply item_size_nonneg].
    + destruct (cautosync c); [repeat constructor|constructor].
Qed.

Lemma sync_kinds_nonneg st : Forall kind_nonneg (sync_kinds st).
Proof. unfold sync_kinds. destruct (opened st) as [c|]; [|constructor]. destruct (cro c); repeat constructor. Qed.

(* the base of the writing segment after the steps of a Publish is the base Model.log_publish gives the head *)
Section HeadBase.
Variable H : bytes -> Z.

Lemma kinds_ops_app : forall a b hb,
  kinds_ops hb (a ++ b) =
  (fst (kinds_ops hb a) ++ fst (kinds_ops (snd (kinds_ops hb a)) b), snd (kinds_ops (snd (kinds_ops hb a)) b)).
Proof.
  induction a as [|k a IH]; intros b hb; cbn [app kinds_ops fst snd]; [now destruct (kinds_ops hb b)|].
  destruct (kind_ops hb k) as [o1 hb1]. rewrite IH. destruct (kinds_ops hb1 a) as [o2 hb2]. cbn [fst snd].
  destruct (kinds_ops hb2 b) as [o3 hb3]. cbn [fst snd]. now rewrite app_assoc.
Qed.

Lemma publish_head_base st ms st' n :
  log_publish H st ms = Ok (st', n) ->
  head_base st' = snd (kinds_ops (head_base st) (publish_kinds st ms)).
Proof.
  unfold log_publish, publish_kinds, get_cfg, head_seg, head_base. destruct (opened st) as [c|]; [|discriminate]. cbn [bind].
  destruct (cro c); [discriminate|]. destruct (last_opt (segs st)) as [hd|] eqn:Ehd; [|discriminate]. cbn [bind].
  destruct (@exists_last _ (segs st)) as (pre & hd' & Esegs); [intro E0; rewrite E0 in Ehd; discriminate|].
  assert (hd' = hd) by (rewrite Esegs, ListAux.last_opt_app in Ehd; now injection Ehd). subst hd'.
  destruct (needs_rollover c hd) eqn:Er.
  - destruct (existsb msg_too_big ms); [discriminate|]. intros E. injection E as <- _.
    cbn [segs set_segs]. rewrite PublishProofs.replace_last, ListAux.last_opt_app. cbn [sbase new_head].
    rewrite kinds_ops_app. cbn [kinds_ops kind_ops fst snd]. destruct (cautosync c); reflexivity.
  - destruct (existsb msg_too_big ms); [discriminate|]. intros E. injection E as <- _.
    cbn [segs set_segs app]. rewrite Esegs, PublishProofs.replace_last, ListAux.last_opt_app. cbn [sbase].
    cbn [kinds_ops kind_ops fst snd]. destruct (cautosync c); reflexivity.
Qed.

End HeadBase.

Section ApiSteps.
Variable H : bytes -> Z.

(* every file of a sealed segment stays entirely on stable storage across a Publish, rollover included *)
Theorem publish_step_sealed st ms st' n t :
  log_publish H st ms = Ok (st', n) -> sealed_durable (head_base st) t ->
  sealed_durable (head_base st') (d_run t (fst (kinds_ops (head_base st) (publish_kinds st ms)))).
Proof.
  intros E Hs. rewrite (publish_head_base H st ms st' n E). now apply kinds_keep_sealed.
Qed.

Lemma ends_with_sync ks hb t :
  sealed_durable hb t -> all_durable (d_run t (fst (kinds_ops hb (ks ++ [KSync])))).
Proof.
  intros Hs. rewrite kinds_ops_app. cbn [fst]. rewrite d_run_app. cbn [kinds_ops kind_ops fst snd]. rewrite app_nil_r.
  apply sync_all_durable. now apply kinds_keep_sealed.
Qed.

(* Sync (and Close, which runs the same writer.Sync first): afterwards every file is entirely on stable storage *)
Theorem sync_step_durable st c t :
  opened st = Some c -> cro c = false -> sealed_durable (head_base st) t ->
  all_durable (d_run t (fst (kinds_ops (head_base st) (sync_kinds st)))).
Proof.
  intros Hc Hro Hs. unfold sync_kinds. rewrite Hc, Hro. apply (ends_with_sync [] _ _ Hs).
Qed.

(* a Publish that returns on a log opened with AutoSync: likewise *)
Theorem autosync_publish_durable st c ms st' n t :
  opened st = Some c -> cautosync c = true -> log_publish H st ms = Ok (st', n) ->
  sealed_durable (head_base st) t ->
  all_durable (d_run t (fst (kinds_ops (head_base st) (publish_kinds st ms)))).
Proof.
  intros Hc Ha E Hs. unfold publish_kinds. unfold log_publish, get_cfg, head_seg in E. rewrite Hc in *. cbn [bind] in E.
  destruct (cro c); [discriminate|]. destruct (last_opt (segs st)) as [hd|]; [|discriminate]. cbn [bind] in E.
  assert (Hbig : existsb msg_too_big ms = false).
  { destruct (needs_rollover c hd); destruct (existsb msg_too_big ms); try discriminate; reflexivity. }
  rewrite Hbig, Ha.
  match goal with |- context [kinds_ops _ (?r ++ [?a; KSync])] => replace (r ++ [a; KSync]) with ((r ++ [a]) ++ [KSync]) by (rewrite <- app_assoc; reflexivity) end.
  now apply ends_with_sync.
Qed.

End ApiSteps.
