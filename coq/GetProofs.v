(* GetProofs.v — C04 on the model: log.Get satisfies the Spec.v checker in
   every state that satisfies Inv, for every offset. *)
From KV Require Import Base Model ListAux SearchProofs SegProofs ReaderProofs Spec LogInv ConsumeProofs.
From Coq Require Import ZifyBool ZifyNat.

(* ---------- segment.Get *)

Lemma seg_get_spec bs off :
  bs <> [] -> sorted_lt bs -> (forall b, In b bs -> 0 <= b) -> 0 <= off ->
  match bs with
  | [] => False
  | first :: _ =>
    if off <? first then seg_get bs off = Err ESegBefore
    else exists r b, seg_get bs off = Ok r /\ znth bs r = Some b /\ b <= off /\
                     (forall j c, r < j -> znth bs j = Some c -> off < c)
  end.
Proof.
  intros Hne Hs Hnn Hoff. destruct bs as [|first rest]; [congruence|].
  unfold seg_get. lazy zeta.
  set (bs := first :: rest) in *.
  assert (Hlen : 1 <= zlen bs) by (unfold bs; rewrite zlen_cons; pose proof (zlen_nonneg rest); lia).
  assert (Hlast : znth bs (zlen bs - 1) = Some (last bs first)) by (apply znth_last; discriminate).
  assert (H0 : 0 <= first) by (apply Hnn; left; reflexivity).
  unfold OffsetOldest, OffsetNewest.
  destruct (off =? -2) eqn:E1; [lia|]. destruct (off =? -1) eqn:E2; [lia|].
  destruct (off <? first) eqn:E3.
  { destruct (first =? 0) eqn:E0; [lia|reflexivity]. }
  destruct (off =? first) eqn:E4.
  { exists 0, first. split; [reflexivity|]. split; [reflexivity|]. split; [lia|].
    intros j c Hj Hc. assert (first < c) by (apply (Hs 0 j); auto; reflexivity). lia. }
  destruct (last bs first <=? off) eqn:E5.
  { exists (zlen bs - 1), (last bs first). split; [reflexivity|]. split; [assumption|]. split; [lia|].
    intros j c Hj Hc. apply znth_some in Hc. lia. }
  destruct (bsearch_seg_spec (S (length bs)) bs 0 (zlen bs - 1) off Hs) as (r & Hr & b & Hb & Hle & Hgt);
    try lia.
  - intros i k Hi Hk. apply znth_some in Hk. lia.
  - intros _. exists first. split; [reflexivity|lia].
  - exists (last bs first). split; [assumption|lia].
  - unfold zlen; lia.
  - exists r, b. repeat split; assumption.
Qed.

Section GetProofs.
Variable H : bytes -> Z.

Definition obs_get (r : res (lstate * msg)) : obs msg :=
  match r with Ok (_, m) => OOk m | Err e => OErr (classify e) end.

(* ---------- the checker, case by case *)

Lemma check_get_found a off m : 0 <= off -> find_off (live a) off = Some m -> check_get a off (OOk m) = true.
Proof.
  intros Hoff Hf. unfold check_get. destruct (0 <=? off) eqn:E; [|lia]. rewrite Hf. apply msg_eqb_refl.
Qed.

Lemma check_get_deleted a off : 0 <= off -> find_off (live a) off = None -> off < anext a ->
  check_get a off (OErr CNotFound) = true.
Proof.
  intros Hoff Hf Hlt. unfold check_get. destruct (0 <=? off) eqn:E; [|lia]. rewrite Hf.
  destruct (off <? anext a) eqn:E2; [reflexivity|lia].
Qed.

Lemma check_get_unassigned a off : 0 <= off -> find_off (live a) off = None -> anext a <= off ->
  check_get a off (OErr CInvalidOffset) = true.
Proof.
  intros Hoff Hf Hlt. unfold check_get. destruct (0 <=? off) eqn:E; [|lia]. rewrite Hf.
  destruct (off <? anext a) eqn:E2; [lia|reflexivity].
Qed.

(* ---------- find over the concatenation of segments *)

Lemma find_app {A} (f : A -> bool) l1 l2 :
  find f (l1 ++ l2) = match find f l1 with Some x => Some x | None => find f l2 end.
Proof. induction l1 as [|a l IH]; [reflexivity|]. cbn. destruct (f a); [reflexivity|exact IH]. Qed.

Lemma find_none_all {A} (f : A -> bool) l : (forall x, In x l -> f x = false) -> find f l = None.
Proof.
  induction l as [|a l IH]; intros Hall; [reflexivity|]. cbn. rewrite (Hall a (or_introl eq_refl)).
  apply IH. intros x Hx. apply Hall. now right.
Qed.

Lemma find_off_split pre s post off :
  (forall m, In m (all_recs pre) -> moff m < off) ->
  (forall m, In m (all_recs post) -> off < moff m) ->
  find_off (all_recs (pre ++ s :: post)) off = find_rec (srecs s) off.
Proof.
  intros Hpre Hpost. unfold find_off, find_rec. rewrite all_recs_app, all_recs_cons, !find_app.
  rewrite (find_none_all _ (all_recs pre)) by (intros x Hx; specialize (Hpre x Hx); lia).
  destruct (find (fun m => moff m =? off) (srecs s)); [reflexivity|].
  apply find_none_all. intros x Hx. specialize (Hpost x Hx). lia.
Qed.

(* ---------- C04 for non-negative offsets *)

Theorem log_get_correct_abs st off :
  Inv st -> 0 <= off -> check_get (abs st) off (obs_get (log_get H st off)) = true.
Proof.
  intros HInv Hoff. pose proof HInv as (Hne & HF & Hch & Hv & c & Hc & Hhead).
  unfold log_get, get_cfg. rewrite Hc. cbn [bind].
  assert (Hbne : bases (segs st) <> []) by (unfold bases; destruct (segs st); [congruence|discriminate]).
  destruct (last_opt (segs st)) as [hd|] eqn:Ehd; [|apply last_opt_none in Ehd; congruence].
  assert (Hhd_inv : seg_inv hd) by (rewrite Forall_forall in HF; apply HF; now apply last_opt_in).
  assert (Hanext : anext (abs st) = recs_next hd) by (unfold abs, wnext; cbn; now rewrite Ehd).
  assert (Hlive : live (abs st) = all_recs (segs st)) by reflexivity.
  pose proof (seg_get_spec (bases (segs st)) off Hbne (bases_sorted _ Hch)
                (fun b Hb => bases_nonneg _ b HF Hb) Hoff) as Hsg.
  destruct (bases (segs st)) as [|fb rb] eqn:Eb; [congruence|].
  destruct (segs st) as [|s0 srest] eqn:Esegs; [congruence|].
  assert (Hfb : fb = sbase s0) by (unfold bases in Eb; cbn in Eb; now injection Eb).
  rewrite <- Esegs in *. rewrite <- Eb in *.
  destruct (off <? fb) eqn:E1.
  - (* before the first segment: every live offset is above *)
    rewrite Hsg. cbn [bind obs_get classify].
    assert (Hs0 : seg_inv s0) by (rewrite Forall_forall in HF; apply HF; rewrite Esegs; left; reflexivity).
    apply check_get_deleted; [assumption| |].
    + rewrite Hlive. unfold find_off. apply find_none_all. intros m Hm.
      destruct (in_all_recs _ _ Hm) as (s & Hs & Hms).
      assert (Hsi : seg_inv s) by (rewrite Forall_forall in HF; now apply HF).
      pose proof (seg_offsets_ge_base s m Hsi Hms).
      assert (sbase s0 <= sbase s).
      { rewrite Esegs in Hs, Hch. destruct Hs as [<-|Hs]; [lia|]. pose proof (chain_base_lt s0 srest s Hch Hs). lia. }
      lia.
    + rewrite Hanext. pose proof (recs_next_ge_base hd Hhd_inv).
      assert (sbase s0 <= sbase hd).
      { assert (Hin : In hd (segs st)) by now apply last_opt_in.
        rewrite Esegs in Hin, Hch. destruct Hin as [<-|Hin]; [lia|]. pose proof (chain_base_lt s0 srest hd Hch Hin). lia. }
      lia.
  - destruct Hsg as (i & b & Hi & Hb & Hble & Hafter). rewrite Hi. cbn [bind].
    destruct (off =? OffsetNewest) eqn:En; [unfold OffsetNewest in En; lia|].
    pose proof (znth_some _ _ _ Hb) as Hir. unfold bases in Hir. rewrite zlen_map in Hir.
    destruct (znth_in_range (segs st) i Hir) as [s Hs].
    rewrite znth_bases, Hs in Hb. cbn in Hb. injection Hb as <-.
    destruct (with_index_ok H c st i s HInv Hc Hs) as (st1 & s' & items & Hwi & Hok & Hsh & Hst & HInv1 & Hz1).
    rewrite Hwi. cbn [bind].
    destruct (znth_split _ _ _ Hs) as (pre & post & Hsplit & Hpre).
    assert (Hs_inv : seg_inv s) by (eapply Forall_znth; eauto).
    destruct Hsh as (Hr' & Hb' & Hv').
    assert (Hpost_gt : forall m, In m (all_recs post) -> off < moff m).
    { intros m Hm. destruct (in_all_recs _ _ Hm) as (s2 & Hs2 & Hm2).
      destruct (in_znth _ _ Hs2) as [j Hj]. pose proof (znth_some _ _ _ Hj) as Hjr.
      assert (Hz : znth (segs st) (i + 1 + j) = Some s2).
      { rewrite Hsplit. rewrite <- Hpre. replace (zlen pre + 1 + j) with (zlen pre + (1 + j)) by lia.
        rewrite znth_app_r by lia. rewrite znth_cons_pos by lia. now replace (1 + j - 1) with j by lia. }
      assert (off < sbase s2) by (apply (Hafter (i + 1 + j)); [lia|]; rewrite znth_bases, Hz; reflexivity).
      assert (seg_inv s2) by (eapply Forall_znth; eauto).
      pose proof (seg_offsets_ge_base s2 m ltac:(assumption) Hm2). lia. }
    assert (Hfind : find_off (all_recs (segs st)) off = find_rec (srecs s) off).
    { rewrite Hsplit. apply find_off_split; [|assumption].
      intros m Hm. rewrite Hsplit in Hch. pose proof (chain_pre_lt pre s post m Hch Hm). lia. }
    pose proof (reader_get_spec s' items (is_last st i) off Hok Hoff) as Hrg. rewrite Hr' in Hrg.
    destruct (find_rec (srecs s) off) as [m|] eqn:Efr.
    + rewrite Hrg. cbn [obs_get]. apply check_get_found; [assumption|]. now rewrite Hlive, Hfind.
    + destruct Hrg as (e & Hrg & Hcase). rewrite Hrg.
      rewrite (same_shape_recs_next s s' (conj Hr' (conj Hb' Hv'))) in Hcase.
      destruct post as [|s2 post'].
      * (* the head segment *)
        assert (Hil : is_last st i = true).
        { unfold is_last. rewrite Hsplit, zlen_app, zlen_cons. unfold zlen at 2. cbn. lia. }
        assert (Hnlt : (i <? zlen (segs st) - 1) = false) by (unfold is_last in Hil; lia).
        assert (Hshd : s = hd) by (rewrite Hsplit, last_opt_app in Ehd; now injection Ehd).
        subst s. rewrite Hil in Hcase.
        destruct (srecs hd) as [|r0 rr] eqn:Er.
        -- subst e. cbn [obs_get classify]. apply check_get_unassigned; [assumption|now rewrite Hlive, Hfind|].
           rewrite Hanext. unfold recs_next. rewrite Er. cbn. lia.
        -- assert (Hfb0 : moff r0 = sbase hd).
           { destruct Hs_inv as (_ & _ & Hfbs & _). unfold first_is_base in Hfbs. now rewrite Er in Hfbs. }
           destruct (off <? moff r0) eqn:E2; [lia|].
           destruct (recs_next hd <=? off) eqn:E3; subst e.
           ++ cbn [obs_get classify]. apply check_get_unassigned; [assumption|now rewrite Hlive, Hfind|]. lia.
           ++ cbn [obs_get classify]. apply check_get_deleted; [assumption|now rewrite Hlive, Hfind|]. lia.
      * (* a non-head segment *)
        assert (Hil : is_last st i = false).
        { unfold is_last. rewrite Hsplit, zlen_app, !zlen_cons. pose proof (zlen_nonneg post'). lia. }
        assert (Hlt : (i <? zlen (segs st) - 1) = true).
        { rewrite Hsplit, zlen_app, !zlen_cons. pose proof (zlen_nonneg post'). lia. }
        rewrite Hil in Hcase.
        assert (Hsne : srecs s <> []).
        { rewrite Hsplit in Hch. apply (chain_nonhead_nonempty pre s (s2 :: post') Hch). discriminate. }
        destruct (srecs s) as [|r0 rr] eqn:Er; [congruence|].
        assert (Hfb0 : moff r0 = sbase s).
        { destruct Hs_inv as (_ & _ & Hfbs & _). unfold first_is_base in Hfbs. now rewrite Er in Hfbs. }
        (* every failure in a non-head segment is NotFound, and the offset is below NextOffset *)
        assert (Hlt_next : off < anext (abs st)).
        { rewrite Hanext.
          assert (Hz2 : znth (segs st) (i + 1) = Some s2).
          { rewrite Hsplit, <- Hpre. rewrite znth_app_r by lia. reflexivity. }
          assert (off < sbase s2) by (apply (Hafter (i + 1)); [lia|]; rewrite znth_bases, Hz2; reflexivity).
          assert (sbase s2 <= sbase hd).
          { assert (Hin : In hd (s2 :: post')).
            { rewrite Hsplit in Ehd. rewrite last_opt_app2 in Ehd by discriminate.
              rewrite last_opt_cons_cons in Ehd. now apply last_opt_in. }
            rewrite Hsplit in Hch. apply chain_ok_app_r in Hch. apply chain_ok_tail in Hch.
            destruct Hin as [<-|Hin]; [lia|]. pose proof (chain_base_lt s2 post' hd Hch Hin). lia. }
          pose proof (recs_next_ge_base hd Hhd_inv). lia. }
        destruct (off <? moff r0) eqn:E2; [lia|].
        destruct (recs_next s <=? off) eqn:E3; subst e.
        -- rewrite Hlt. cbn [obs_get classify]. apply check_get_deleted; [assumption|now rewrite Hlive, Hfind|assumption].
        -- cbn [obs_get classify]. apply check_get_deleted; [assumption|now rewrite Hlive, Hfind|assumption].
Qed.


(* ---------- the relative offsets *)

Lemma all_recs_nil_head pre hd : srecs hd = [] -> all_recs (pre ++ [hd]) = all_recs pre.
Proof. intros E. rewrite all_recs_app, all_recs_cons, E. unfold all_recs at 2. cbn. now rewrite !app_nil_r. Qed.

Lemma last_opt_all_recs pre s : srecs s <> [] -> last_opt (all_recs (pre ++ [s])) = last_opt (srecs s).
Proof.
  intros Hne. rewrite all_recs_app, all_recs_cons. unfold all_recs at 2. cbn [map concat]. rewrite app_nil_r.
  now apply last_opt_app2.
Qed.

Theorem log_get_oldest_correct st :
  Inv st -> check_get (abs st) OffsetOldest (obs_get (log_get H st OffsetOldest)) = true.
Proof.
  intros HInv. pose proof HInv as (Hne & HF & Hch & Hv & c & Hc & Hhead).
  unfold log_get, get_cfg. rewrite Hc. cbn [bind].
  destruct (segs st) as [|s0 srest] eqn:Esegs; [congruence|].
  unfold bases. cbn [map seg_get]. change (OffsetOldest =? OffsetOldest) with true. cbn [bind].
  change (OffsetOldest =? OffsetNewest) with false. cbn iota.
  assert (Hz0 : znth (segs st) 0 = Some s0) by (rewrite Esegs; reflexivity).
  destruct (with_index_ok H c st 0 s0 HInv Hc Hz0) as (st1 & s' & items & Hwi & Hok & Hsh & Hst & HInv1 & Hz1).
  rewrite <- Esegs. rewrite Hwi. cbn [bind]. destruct Hsh as (Hr' & _).
  unfold check_get. change (0 <=? OffsetOldest) with false. change (OffsetOldest =? OffsetOldest) with true. cbn iota.
  assert (Hlive : live (abs st) = srecs s0 ++ all_recs srest) by (unfold abs; cbn; now rewrite Esegs).
  rewrite Hlive.
  destruct (srecs s0) as [|m r] eqn:Er.
  - (* an empty first segment is the only segment *)
    assert (srest = []).
    { destruct srest as [|s1 r1]; [reflexivity|]. cbn in Hch. destruct Hch as [(_ & _ & Hn) _]. congruence. }
    subst srest. unfold all_recs. cbn [map concat app].
    assert (Hit : items = []) by (apply (seg_ok_nil_recs s' items Hok); congruence).
    subst items. unfold reader_get, ridx_get. cbn. reflexivity.
  - rewrite (reader_get_oldest s' items _ m r Hok) by congruence. cbn. apply msg_eqb_refl.
Qed.

Lemma get_newest_back_nonempty c st n i s :
  Inv st -> opened st = Some c -> znth (segs st) i = Some s -> srecs s <> [] ->
  forall d, exists st1, get_newest_back H c st (S n) i = Ok (st1, last (srecs s) d).
Proof.
  intros HInv Hc Hs Hne d. cbn [get_newest_back].
  destruct (with_index_ok H c st i s HInv Hc Hs) as (st1 & s' & items & Hwi & Hok & Hsh & Hst & HInv1 & Hz1).
  rewrite Hwi. cbn [bind]. destruct Hsh as (Hr' & _).
  rewrite (reader_get_newest s' items _ d Hok) by congruence. rewrite Hr'. eauto.
Qed.

Theorem log_get_newest_correct st :
  Inv st -> check_get (abs st) OffsetNewest (obs_get (log_get H st OffsetNewest)) = true.
Proof.
  intros HInv. pose proof HInv as (Hne & HF & Hch & Hv & c & Hc & Hhead).
  unfold log_get, get_cfg. rewrite Hc. cbn [bind].
  assert (Hbne : bases (segs st) <> []) by (unfold bases; destruct (segs st); [congruence|discriminate]).
  destruct (bases (segs st)) as [|fb rb] eqn:Eb; [congruence|].
  unfold seg_get. change (OffsetNewest =? OffsetOldest) with false. change (OffsetNewest =? OffsetNewest) with true.
  cbn iota. cbn [bind]. rewrite <- Eb. unfold bases. rewrite zlen_map.
  unfold check_get. change (0 <=? OffsetNewest) with false. change (OffsetNewest =? OffsetOldest) with false.
  change (OffsetNewest =? OffsetNewest) with true. cbn iota.
  destruct (@exists_last _ (segs st) Hne) as (pre & hd & Esegs).
  assert (Hzl : znth (segs st) (zlen (segs st) - 1) = Some hd).
  { rewrite <- last_opt_znth, Esegs. apply last_opt_app. }
  assert (Hlen : length (segs st) = S (length pre)) by (rewrite Esegs, app_length; cbn; lia).
  rewrite Hlen.
  assert (Hlive : live (abs st) = all_recs (pre ++ [hd])) by (unfold abs; cbn; now rewrite Esegs).
  rewrite Hlive.
  destruct (srecs hd) as [|m0 r0] eqn:Er.
  - (* empty head: walk back one segment *)
    rewrite (all_recs_nil_head pre hd Er).
    cbn [get_newest_back].
    destruct (with_index_ok H c st _ hd HInv Hc Hzl) as (st1 & s' & items & Hwi & Hok & Hsh & Hst & HInv1 & Hz1).
    rewrite Hwi. cbn [bind]. destruct Hsh as (Hr' & _).
    assert (Hit : items = []) by (apply (seg_ok_nil_recs s' items Hok); congruence).
    subst items. unfold reader_get at 1, ridx_get. cbn [index_get ierr_eqb andb bind].
    destruct (exists_last_or_nil pre) as [->|(pre' & s & ->)].
    + (* a single empty segment *)
      cbn [length]. rewrite Esegs. unfold zlen. cbn. reflexivity.
    + assert (Hpos : (0 <? zlen (segs st) - 1) = true).
      { rewrite Esegs, !zlen_app. unfold zlen. cbn. lia. }
      rewrite app_length. cbn [length]. replace (length pre' + 1)%nat with (S (length pre')) by lia.
      rewrite Hpos.
      destruct Hst as (HF2 & Hop1 & _).
      assert (Hc1 : opened st1 = Some c) by congruence.
      assert (Hzs : znth (segs st) (zlen (segs st) - 1 - 1) = Some s).
      { assert (Hidx : zlen (segs st) - 1 - 1 = zlen pre' + 0)
          by (rewrite Esegs, !zlen_app; unfold zlen; cbn; lia).
        rewrite Hidx, Esegs, <- app_assoc, znth_app_r by lia. reflexivity. }
      assert (Hzs1 : exists sa, znth (segs st1) (zlen (segs st) - 1 - 1) = Some sa /\ same_shape s sa).
      { clear -HF2 Hzs. revert Hzs. generalize (zlen (segs st) - 1 - 1) as k. intros k.
        unfold znth. destruct (k <? 0); [discriminate|]. generalize (Z.to_nat k) as n.
        induction HF2 as [|a a' l l' Ha HF IH]; intros [|n] Hn; try discriminate.
        - cbn in *. injection Hn as <-. eauto.
        - cbn in *. apply IH. exact Hn. }
      destruct Hzs1 as (sa & Hzsa & (Hra & _)).
      assert (Hsne : srecs s <> []).
      { rewrite Esegs in Hch. rewrite <- app_assoc in Hch. apply (chain_nonhead_nonempty pre' s [hd] Hch). discriminate. }
      destruct (srecs s) as [|q0 qr] eqn:Eq; [congruence|].
      destruct (get_newest_back_nonempty c st1 (length pre') _ sa HInv1 Hc1 Hzsa ltac:(rewrite Hra; discriminate) q0)
        as (st2 & Hg).
      rewrite Hg. cbn [obs_get]. rewrite Hra.
      rewrite (last_opt_all_recs pre' s) by congruence. rewrite Eq.
      rewrite (last_opt_last (q0 :: qr) q0) by discriminate. apply msg_eqb_refl.
  - destruct (get_newest_back_nonempty c st (length pre) _ hd HInv Hc Hzl ltac:(rewrite Er; discriminate) m0)
      as (st1 & Hg).
    rewrite Hg. cbn [obs_get].
    rewrite (last_opt_all_recs pre hd) by congruence.
    rewrite (last_opt_last (srecs hd) m0) by congruence. apply msg_eqb_refl.
Qed.

(* ---------- C04 on the model, every offset *)

Theorem log_get_correct st off :
  Inv st -> check_get (abs st) off (obs_get (log_get H st off)) = true.
Proof.
  intros HInv. destruct (Z_le_gt_dec 0 off) as [Hge|Hlt].
  - now apply log_get_correct_abs.
  - destruct (Z.eq_dec off OffsetOldest) as [->|Ho]; [now apply log_get_oldest_correct|].
    destruct (Z.eq_dec off OffsetNewest) as [->|Hn]; [now apply log_get_newest_correct|].
    unfold check_get, OffsetOldest, OffsetNewest in *.
    destruct (0 <=? off) eqn:E1; [lia|]. destruct (off =? -2) eqn:E2; [lia|]. destruct (off =? -1) eqn:E3; [lia|].
    reflexivity.
Qed.

End GetProofs.
