(* OpenProofs.v — Close, Open (Check / Recover / EagerVersionMigrate, read-write and read-only), index
   removal, Migrate and RecoverDir on a closed directory: the invariant is re-established and the abstract
   log (live messages and NextOffset) is unchanged.  C01 (reopen), C11, C17. *)
From KV Require Import Base Model ListAux SpecFacts SearchProofs SegProofs ReaderProofs Spec LogInv
     ConsumeProofs GetProofs AbsFacts PublishProofs DeleteProofs.
From Coq Require Import ZifyBool ZifyNat.

Section OpenProofs.
Variable H : bytes -> Z.

(* a closed directory: every segment well-formed, the chain in order *)
Definition DirInv (l : list seg) : Prop := Forall seg_inv l /\ chain_ok l.

Definition abs_dir (l : list seg) : alog :=
  mkAlog (all_recs l) (match last_opt l with Some hd => recs_next hd | None => 0 end).

Lemma abs_dir_abs st : abs st = abs_dir (segs st).
Proof. reflexivity. Qed.

(* ---------- per-segment maintenance keeps shape and invariant *)

Lemma seg_inv_shape s s' :
  seg_inv s -> same_shape s s' ->
  (forall iv items, sidx s' = Some (iv, items) ->
     items = [] \/ items_match (sver s') (hdr_size (sver s')) (srecs s') items) ->
  seg_inv s'.
Proof.
  intros (Hs & Hnn & Hfb & _ & Hb) (Hr & Hbb & Hv) Hix. unfold seg_inv, first_is_base in *.
  rewrite Hr, Hbb. repeat split; try assumption.
Qed.

Lemma seg_inv_no_index s : seg_inv s -> seg_inv (set_idx s None).
Proof.
  intros Hi. apply (seg_inv_shape s); [assumption|repeat split|]. intros iv items E. discriminate.
Qed.

Lemma idx_reader_ok s iv items :
  seg_inv s -> sidx s = Some (iv, items) -> open_idx_reader s (iv, items) = Ok items.
Proof.
  intros (_ & _ & Hfb & Hix & _) Hsi. unfold open_idx_reader. destruct iv; [|reflexivity].
  destruct items as [|it r]; [reflexivity|].
  destruct (Hix V1 (it :: r) Hsi) as [E|[Ho _]]; [discriminate|].
  unfold first_is_base in Hfb. destruct (srecs s) as [|m rr]; [discriminate|]. cbn in Ho. injection Ho as Ho _.
  now rewrite Ho, Hfb, Z.eqb_refl.
Qed.

Lemma segment_recover_ok p s :
  seg_inv s -> exists s', segment_recover H p s = Ok s' /\ seg_inv s' /\ same_shape s s'.
Proof.
  intros Hi. unfold segment_recover. rewrite (seg_inv_open_log s Hi). cbn [bind].
  destruct (sidx s) as [[iv items]|] eqn:Esi.
  - rewrite (idx_reader_ok s iv items Hi Esi).
    destruct (list_eqb item_eqb items (derive H p (sver s) (srecs s))).
    + exists s. split; [reflexivity|]. split; [assumption|apply same_shape_refl].
    + eexists. split; [reflexivity|]. split; [|repeat split].
      apply (seg_inv_shape s); [assumption|repeat split|]. intros iv' items' E. cbn in E. injection E as <- <-.
      right. apply derive_from_match.
  - exists s. split; [reflexivity|]. split; [assumption|apply same_shape_refl].
Qed.

Lemma segment_migrate_ok p v s :
  seg_inv s -> exists s', segment_migrate H p v v s = Ok s' /\ seg_inv s' /\
                          srecs s' = srecs s /\ sbase s' = sbase s.
Proof.
  intros Hi. unfold segment_migrate. rewrite (seg_inv_open_log s Hi). cbn [bind].
  destruct (ver_eqb (sver s) v).
  - exists s. tauto.
  - eexists. split; [reflexivity|]. split; [|split; reflexivity].
    destruct Hi as (Hs & Hnn & Hfb & _ & Hb). repeat split; try assumption.
    intros iv items E. cbn in E. injection E as <- <-. right. apply derive_from_match.
Qed.

(* lists: map_res / map_last of shape-preserving functions *)
Definition same_recs (s s' : seg) : Prop := srecs s' = srecs s /\ sbase s' = sbase s.

Lemma chain_ok_recs l l' : Forall2 same_recs l l' -> chain_ok l -> chain_ok l'.
Proof.
  intros HF. induction HF as [|s s' r r' Hs HF IH]; [trivial|].
  cbn [chain_ok]. intros [Hh Ht]. split; [|apply IH; exact Ht].
  destruct HF as [|s2 s2' r2 r2' Hs2 HF2]; [trivial|].
  destruct Hs as (Hr & Hb). destruct Hs2 as (Hr2 & Hb2). rewrite Hr, Hb, Hb2. exact Hh.
Qed.

Lemma all_recs_recs l l' : Forall2 same_recs l l' -> all_recs l' = all_recs l.
Proof.
  intros HF. induction HF as [|s s' r r' Hs HF IH]; [reflexivity|].
  unfold all_recs in *. cbn [map concat]. destruct Hs as (Hr & _). now rewrite Hr, IH.
Qed.

Lemma last_recs_next l l' :
  Forall2 same_recs l l' ->
  match last_opt l, last_opt l' with
  | Some a, Some b => recs_next b = recs_next a
  | None, None => True
  | _, _ => False
  end.
Proof.
  intros HF. induction HF as [|s s' r r' Hs HF IH]; [exact I|].
  destruct HF as [|s2 s2' r2 r2' Hs2 HF2].
  - cbn. destruct Hs as (Hr & Hb). unfold recs_next. now rewrite Hr, Hb.
  - rewrite !last_opt_cons_cons. exact IH.
Qed.

Lemma abs_dir_recs l l' : Forall2 same_recs l l' -> abs_dir l' = abs_dir l.
Proof.
  intros HF. unfold abs_dir. rewrite (all_recs_recs _ _ HF). pose proof (last_recs_next _ _ HF) as Hl.
  destruct (last_opt l), (last_opt l'); try contradiction; [now rewrite Hl|reflexivity].
Qed.

Lemma map_res_ok (f : seg -> res seg) l :
  Forall seg_inv l ->
  (forall s, seg_inv s -> exists s', f s = Ok s' /\ seg_inv s' /\ same_recs s s') ->
  exists l', map_res f l = Ok l' /\ Forall seg_inv l' /\ Forall2 same_recs l l'.
Proof.
  intros HF Hf. induction HF as [|s r Hs HF IH]; [exists []; repeat split; constructor|].
  destruct (Hf s Hs) as (s' & Es & Hs' & Hsr). destruct IH as (r' & Er & Hr' & Hrr).
  exists (s' :: r'). cbn [map_res]. rewrite Es. cbn [bind]. rewrite Er. cbn [bind].
  split; [reflexivity|]. split; constructor; assumption.
Qed.

Lemma Forall2_refl_recs l : Forall2 same_recs l l.
Proof. induction l; constructor; [split; reflexivity|assumption]. Qed.

Lemma Forall2_app_recs a a' b b' : Forall2 same_recs a a' -> Forall2 same_recs b b' -> Forall2 same_recs (a ++ b) (a' ++ b').
Proof. intros Ha Hb. induction Ha; cbn; [assumption|constructor; assumption]. Qed.

Lemma map_last_ok (f : seg -> res seg) l :
  Forall seg_inv l ->
  (forall s, seg_inv s -> exists s', f s = Ok s' /\ seg_inv s' /\ same_recs s s') ->
  exists l', map_last f l = Ok l' /\ Forall seg_inv l' /\ Forall2 same_recs l l' /\
             (forall hd, last_opt l = Some hd -> exists hd', f hd = Ok hd' /\ last_opt l' = Some hd').
Proof.
  intros HF Hf. unfold map_last. destruct (exists_last_or_nil l) as [->|(pre & x & ->)].
  - exists []. cbn. repeat split; try constructor. intros hd E. discriminate.
  - rewrite rev_app_distr. cbn [rev app].
    apply Forall_app in HF. destruct HF as [Hpre Hx]. inversion Hx as [|? ? Hxi _]; subst.
    destruct (Hf x Hxi) as (x' & Ex & Hx' & Hxr). rewrite Ex. cbn [bind].
    exists (pre ++ [x']). cbn [rev]. rewrite rev_involutive.
    split; [reflexivity|]. split; [apply Forall_app; split; [assumption|constructor; [assumption|constructor]]|].
    split; [apply Forall2_app_recs; [apply Forall2_refl_recs|constructor; [assumption|constructor]]|].
    intros hd E. rewrite last_opt_app in E. injection E as <-. exists x'. split; [assumption|apply last_opt_app].
Qed.

(* ---------- openWriter on the head *)

Lemma recs_size_nonneg v r : 0 <= recs_size v r.
Proof. induction r as [|x r IH]; cbn [recs_size]; [lia|]. pose proof (rec_size_pos v x). lia. Qed.

Lemma log_size_small v r : log_size v r <= 8 -> r = [].
Proof.
  unfold log_size. destruct r as [|m r]; [reflexivity|]. cbn [recs_size]. intros E.
  pose proof (rec_size_pos v m). pose proof (recs_size_nonneg v r). unfold hdr_size in E. destruct v; lia.
Qed.

Lemma open_writer_ok c s :
  seg_inv s -> exists s', open_writer H c s = Ok s' /\ seg_inv s' /\ same_recs s s' /\ head_inv s'.
Proof.
  intros Hi. pose proof Hi as (Hs & Hnn & Hfb & Hix & Hb).
  unfold open_writer.
  (* message.OpenWriter *)
  set (s1 := if seg_log_size s =? 0 then mkSeg (sbase s) (cnewver c) (srecs s) (sidx s) else s).
  assert (H1 : (if seg_log_size s =? 0 then Ok (mkSeg (sbase s) (cnewver c) (srecs s) (sidx s))
                else do _ <- open_log_reader s; Ok s) = Ok s1).
  { unfold s1. destruct (seg_log_size s =? 0); [reflexivity|]. now rewrite (seg_inv_open_log s Hi). }
  rewrite H1. cbn [bind].
  assert (Hrecs_empty : seg_log_size s = 0 -> srecs s = []).
  { unfold seg_log_size. intros E. apply (log_size_small (sver s)). lia. }
  assert (Hs1 : seg_inv s1 /\ same_recs s s1).
  { unfold s1. destruct (seg_log_size s =? 0) eqn:E0; [|split; [assumption|split; reflexivity]].
    assert (Er : srecs s = []) by (apply Hrecs_empty; lia).
    split; [|split; reflexivity]. repeat split; cbn [srecs sbase sver sidx]; try assumption.
    intros iv items Ei. destruct (Hix iv items Ei) as [->|Hm]; [left; reflexivity|].
    left. rewrite Er in Hm. now apply items_match_nil in Hm. }
  destruct Hs1 as [Hi1 Hr1].
  (* the index of the existing records *)
  destruct (8 <? seg_log_size s1) eqn:E8.
  - destruct (ensure_index_ok H (cparams c) (cnewver c) s1 Hi1) as (s2 & items & Ee & Hok2 & Hi2 & Hsh2).
    rewrite Ee. cbn [bind fst].
    (* there are records, so the index just loaded is not empty *)
    assert (Hne : srecs s1 <> []).
    { intro E. unfold seg_log_size, log_size in E8. rewrite E in E8. cbn in E8. destruct (sver s1); cbn in E8; lia. }
    assert (Hsidx : exists iv, sidx s2 = Some (iv, items)).
    { unfold ensure_index in Ee. destruct (needs_reindex s1).
      - unfold reindex in Ee. rewrite (seg_inv_open_log s1 Hi1) in Ee. cbn [bind] in Ee. injection Ee as <- <-. eexists. reflexivity.
      - destruct (sidx s1) as [[iv its]|] eqn:Es1; [|discriminate].
        destruct (open_idx_reader s1 (iv, its)) eqn:Eo; [|discriminate]. cbn [bind] in Ee. injection Ee as <- <-.
        rewrite (idx_reader_ok s1 iv its Hi1 Es1) in Eo. injection Eo as <-. eauto. }
    destruct Hsidx as (iv & Hsi2).
    destruct Hsh2 as (Hr2 & Hb2 & Hv2).
    assert (Hitems_ne : items <> []).
    { intro E. subst items. destruct Hok2 as ((Ho & _) & _). rewrite Hr2 in Ho. destruct (srecs s1); [congruence|discriminate]. }
    rewrite Hsi2. destruct iv, items; try congruence.
    + rewrite (idx_reader_ok s2 V1 (i :: items) Hi2 Hsi2). cbn [bind]. exists s2. split; [reflexivity|].
      split; [assumption|]. split; [destruct Hr1 as (E1 & E2); split; congruence|].
      exists V1, (i :: items). split; [assumption|]. destruct Hok2 as (Hm & _). exact Hm.
    + rewrite (idx_reader_ok s2 V2 (i :: items) Hi2 Hsi2). cbn [bind]. exists s2. split; [reflexivity|].
      split; [assumption|]. split; [destruct Hr1 as (E1 & E2); split; congruence|].
      exists V2, (i :: items). split; [assumption|]. destruct Hok2 as (Hm & _). exact Hm.
  - (* no records yet *)
    cbn [bind].
    assert (Er1 : srecs s1 = []).
    { unfold seg_log_size in E8. apply (log_size_small (sver s1)). lia. }
    assert (Hempty_head : forall v, seg_inv (set_idx s1 (Some (v, []))) /\ head_inv (set_idx s1 (Some (v, [])))).
    { intros v. split.
      - apply (seg_inv_shape s1); [assumption|repeat split|]. intros iv items E. cbn in E. injection E as <- <-. left. reflexivity.
      - exists v, []. split; [reflexivity|]. cbn. rewrite Er1. split; reflexivity. }
    destruct (sidx s1) as [[iv items]|] eqn:Es1.
    + pose proof Hi1 as (_ & _ & _ & Hix1 & _). destruct (Hix1 iv items Es1) as [->|Hm].
      * destruct iv.
        -- eexists. split; [reflexivity|]. destruct (Hempty_head (cnewver c)). split; [assumption|]. split; [|assumption].
           destruct Hr1; split; assumption.
        -- cbn [open_idx_reader bind]. exists s1. split; [reflexivity|].
           split; [exact Hi1|]. split; [assumption|]. exists V2, []. split; [assumption|]. rewrite Er1. split; reflexivity.
      * rewrite Er1 in Hm. apply items_match_nil in Hm. subst items. destruct iv.
        -- eexists. split; [reflexivity|]. destruct (Hempty_head (cnewver c)). split; [assumption|]. split; [|assumption].
           destruct Hr1; split; assumption.
        -- cbn [open_idx_reader bind]. exists s1. split; [reflexivity|].
           split; [exact Hi1|]. split; [assumption|]. exists V2, []. split; [assumption|]. rewrite Er1. split; reflexivity.
    + eexists. split; [reflexivity|]. destruct (Hempty_head (cnewver c)). split; [assumption|]. split; [|assumption].
      destruct Hr1; split; assumption.
Qed.


(* ---------- Close *)

Theorem log_close_ok st :
  Inv st -> exists st', log_close st = Ok st' /\ segs st' = segs st /\ opened st' = None /\ lvirt st' = false /\
                        DirInv (segs st') /\ abs_dir (segs st') = abs st.
Proof.
  intros (Hne & HF & Hch & Hv & c & Hc & _). unfold log_close. rewrite Hc, Hv.
  eexists. split; [reflexivity|]. cbn [segs opened lvirt]. split; [reflexivity|]. split; [reflexivity|]. split; [reflexivity|].
  split; [split; assumption|reflexivity].
Qed.

(* ---------- Open *)

Definition closed_dir (st : lstate) : Prop := opened st = None /\ lvirt st = false /\ DirInv (segs st).

Lemma dirinv_recs l l' : Forall seg_inv l' -> Forall2 same_recs l l' -> DirInv l -> DirInv l'.
Proof. intros HF H2 [_ Hc]. split; [assumption|apply (chain_ok_recs l); assumption]. Qed.

Lemma recover_step_ok p s : seg_inv s -> exists s', segment_recover H p s = Ok s' /\ seg_inv s' /\ same_recs s s'.
Proof.
  intros Hi. destruct (segment_recover_ok p s Hi) as (s' & E & Hi' & (Hr & Hb & _)). exists s'. split; [assumption|]. split; [assumption|]. split; assumption.
Qed.

Lemma migrate_step_ok p v s : seg_inv s -> exists s', segment_migrate H p v v s = Ok s' /\ seg_inv s' /\ same_recs s s'.
Proof.
  intros Hi. destruct (segment_migrate_ok p v s Hi) as (s' & E & Hi' & Hr & Hb). exists s'. split; [assumption|]. split; [assumption|]. split; assumption.
Qed.

Lemma open_writer_step_ok c s : seg_inv s -> exists s', open_writer H c s = Ok s' /\ seg_inv s' /\ same_recs s s'.
Proof. intros Hi. destruct (open_writer_ok c s Hi) as (s' & E & Hi' & Hr & _). exists s'. split; [assumption|]. split; assumption. Qed.

Lemma Forall2_recs_trans a b c : Forall2 same_recs a b -> Forall2 same_recs b c -> Forall2 same_recs a c.
Proof.
  intros Hab. revert c. induction Hab as [|x y r r' Hxy Hab IH]; intros c Hbc; inversion Hbc; subst; constructor.
  - destruct Hxy as (A1 & A2). match goal with Hyz : same_recs y _ |- _ => destruct Hyz as (B1 & B2) end. split; congruence.
  - apply IH. assumption.
Qed.

Lemma Forall2_recs_nonempty l l' : Forall2 same_recs l l' -> l <> [] -> l' <> [].
Proof. intros HF Hne. destruct HF; [congruence|discriminate]. Qed.

(* Open of a closed, well-formed directory, in every mode: if it succeeds the handle satisfies Inv and shows
   exactly the messages and NextOffset the directory held; on failure nothing was opened. *)
Theorem log_open_ok st c0 :
  closed_dir st -> segs st <> [] ->
  forall st', log_open H st c0 = Ok st' -> Inv st' /\ abs st' = abs_dir (segs st).
Proof.
  intros (Ho & Hv & HD) Hne st'. unfold log_open. rewrite Ho.
  set (c := norm_cfg c0). destruct HD as [HF Hch].
  destruct (segs st) as [|s0 r0] eqn:Esegs; [congruence|]. rewrite <- Esegs in *.
  destruct (cro c) eqn:Ero.
  - (* read-only *)
    rewrite Esegs. rewrite <- Esegs.
    destruct (if ccheck c || crecover c then dir_check H (cparams c) st else Ok tt); [|discriminate].
    cbn [bind]. intros E. injection E as <-. split; [|reflexivity].
    unfold Inv. cbn. repeat split; try assumption. exists c. split; [reflexivity|]. intros E. congruence.
  - rewrite Esegs. rewrite <- Esegs.
    (* recover / check *)
    assert (H1 : forall l1, (if crecover c then map_last (segment_recover H (cparams c)) (segs st)
                  else if ccheck c then (do _ <- dir_check H (cparams c) st; Ok (segs st)) else Ok (segs st)) = Ok l1 ->
                  Forall seg_inv l1 /\ Forall2 same_recs (segs st) l1).
    { intros l1. destruct (crecover c).
      - destruct (map_last_ok (segment_recover H (cparams c)) (segs st) HF (recover_step_ok (cparams c))) as (l' & E & HF' & H2 & _).
        rewrite E. intros E1. injection E1 as <-. split; assumption.
      - destruct (ccheck c).
        + destruct (dir_check H (cparams c) st); [|discriminate]. cbn [bind]. intros E1. injection E1 as <-.
          split; [assumption|apply Forall2_refl_recs].
        + intros E1. injection E1 as <-. split; [assumption|apply Forall2_refl_recs]. }
    destruct (if crecover c then map_last (segment_recover H (cparams c)) (segs st)
              else if ccheck c then (do _ <- dir_check H (cparams c) st; Ok (segs st)) else Ok (segs st)) as [l1|] eqn:E1; [|discriminate].
    destruct (H1 l1 eq_refl) as [HF1 H21]. cbn [bind].
    (* eager migration *)
    assert (H2 : exists l2, (if ceager c then map_res (segment_migrate H (cparams c) (cnewver c) (cnewver c)) l1 else Ok l1) = Ok l2 /\
                  Forall seg_inv l2 /\ Forall2 same_recs l1 l2).
    { destruct (ceager c).
      - destruct (map_res_ok (segment_migrate H (cparams c) (cnewver c) (cnewver c)) l1 HF1 (migrate_step_ok (cparams c) (cnewver c))) as (l' & E & HF' & H2').
        exists l'. split; [assumption|]. split; assumption.
      - exists l1. split; [reflexivity|]. split; [assumption|apply Forall2_refl_recs]. }
    destruct H2 as (l2 & E2 & HF2 & H22). rewrite E2. cbn [bind].
    (* the writer *)
    destruct (map_last_ok (open_writer H c) l2 HF2 (open_writer_step_ok c)) as (l3 & E3 & HF3 & H23 & Hlast).
    rewrite E3. cbn [bind]. intros E. injection E as <-.
    pose proof (Forall2_recs_trans _ _ _ (Forall2_recs_trans _ _ _ H21 H22) H23) as Hall.
    split.
    + unfold Inv. cbn [segs lvirt opened]. split; [apply (Forall2_recs_nonempty _ _ Hall Hne)|].
      split; [assumption|]. split; [apply (chain_ok_recs _ _ Hall Hch)|]. split; [reflexivity|].
      exists c. split; [reflexivity|]. intros _.
      assert (Hne2 : l2 <> []) by (apply (Forall2_recs_nonempty _ _ (Forall2_recs_trans _ _ _ H21 H22) Hne)).
      destruct (last_opt l2) as [hd|] eqn:El2.
      * destruct (Hlast hd eq_refl) as (hd' & Ehd & El3). rewrite El3.
        assert (Hhi : seg_inv hd). { rewrite Forall_forall in HF2. apply HF2. apply last_opt_in. assumption. }
        destruct (open_writer_ok c hd Hhi) as (hd2 & Ehd2 & _ & _ & Hh). rewrite Ehd in Ehd2. injection Ehd2 as <-. exact Hh.
      * destruct l2; [congruence|]. exfalso. clear - El2. revert s El2. induction l2 as [|x l IH]; intros s El2; [discriminate|].
        rewrite last_opt_cons_cons in El2. eapply IH. exact El2.
    + unfold abs, wnext. cbn [segs]. fold (abs_dir l3). apply abs_dir_recs. exact Hall.
Qed.

(* Open of an empty directory read-write creates the empty head at offset 0 *)
Theorem log_open_fresh st c0 :
  opened st = None -> segs st = [] -> cro c0 = false ->
  exists st', log_open H st c0 = Ok st' /\ Inv st' /\ abs st' = empty_log.
Proof.
  intros Ho Hs Hro. unfold log_open. rewrite Ho, Hs. replace (cro (norm_cfg c0)) with false by (symmetry; exact Hro).
  assert (Hi0 : seg_inv (mkSeg 0 V1 [] None)).
  { split; [intros i j a b Hi; cbn in Hi; unfold znth in Hi; destruct (i <? 0); [discriminate|destruct (Z.to_nat i); discriminate]|]. split; [intros m []|]. split; [exact I|]. split; [intros iv items E; discriminate|cbn; lia]. }
  destruct (open_writer_ok (norm_cfg c0) _ Hi0) as (w & Ew & Hiw & (Hr & Hb) & Hh). rewrite Ew. cbn [bind].
  eexists. split; [reflexivity|]. cbn in Hr, Hb. split.
  - unfold Inv. cbn [segs lvirt opened]. split; [discriminate|]. split; [constructor; [assumption|constructor]|].
    split; [cbn; tauto|]. split; [reflexivity|]. exists (norm_cfg c0). split; [reflexivity|]. intros _. exact Hh.
  - unfold abs, wnext, all_recs, recs_next, empty_log. cbn. now rewrite Hr, Hb.
Qed.

(* ---------- directory maintenance while closed *)

Lemma rm_index_recs l : forall i which all, Forall2 same_recs l (rm_index_at l i which all).
Proof.
  induction l as [|s r IH]; intros i which all; cbn [rm_index_at]; constructor; [|apply IH].
  destruct (all || zmem i which); split; reflexivity.
Qed.

Theorem rm_index_ok l i which all : DirInv l -> DirInv (rm_index_at l i which all) /\ abs_dir (rm_index_at l i which all) = abs_dir l.
Proof.
  intros HD. split; [|apply abs_dir_recs, rm_index_recs].
  apply (dirinv_recs l); [|apply rm_index_recs|assumption].
  destruct HD as [HF _]. revert i. induction HF as [|s r Hs HF IH]; intros i; cbn [rm_index_at]; constructor; [|apply IH].
  destruct (all || zmem i which); [apply seg_inv_no_index|]; assumption.
Qed.

Theorem dir_migrate_ok p v st :
  DirInv (segs st) ->
  exists st', dir_migrate H p v st = Ok st' /\ DirInv (segs st') /\ abs_dir (segs st') = abs_dir (segs st) /\
              Forall (fun s => sver s = v) (segs st') /\ opened st' = opened st /\ lvirt st' = lvirt st.
Proof.
  intros HD. pose proof HD as [HF _]. unfold dir_migrate.
  destruct (map_res_ok (segment_migrate H p v v) (segs st) HF (migrate_step_ok p v)) as (l' & E & HF' & H2).
  rewrite E. cbn [bind]. eexists. split; [reflexivity|]. cbn. split; [apply (dirinv_recs (segs st)); assumption|].
  split; [apply abs_dir_recs; assumption|]. split; [|split; reflexivity].
  clear - E HF. revert l' E. induction HF as [|s r Hs HF IH]; intros l' E; cbn [map_res] in E.
  - injection E as <-. constructor.
  - destruct (segment_migrate H p v v s) as [s'|] eqn:Es; [|discriminate]. cbn [bind] in E.
    destruct (map_res (segment_migrate H p v v) r) as [r'|]; [|discriminate]. cbn [bind] in E. injection E as <-.
    constructor; [|apply IH; reflexivity].
    unfold segment_migrate in Es. rewrite (seg_inv_open_log s Hs) in Es. cbn [bind] in Es.
    destruct (ver_eqb (sver s) v) eqn:Ev; injection Es as <-; [|reflexivity].
    destruct (sver s), v; cbn in Ev; congruence.
Qed.

Theorem dir_recover_ok p st :
  DirInv (segs st) ->
  exists st', dir_recover H p st = Ok st' /\ DirInv (segs st') /\ abs_dir (segs st') = abs_dir (segs st) /\
              opened st' = opened st /\ lvirt st' = lvirt st.
Proof.
  intros HD. pose proof HD as [HF _]. unfold dir_recover.
  destruct (map_last_ok (segment_recover H p) (segs st) HF (recover_step_ok p)) as (l' & E & HF' & H2 & _).
  rewrite E. cbn [bind]. eexists. split; [reflexivity|]. cbn. split; [apply (dirinv_recs (segs st)); assumption|].
  split; [apply abs_dir_recs; assumption|split; reflexivity].
Qed.

End OpenProofs.

(* a read-only Open - with or without Check / Recover - changes no file: the directory is exactly as before
   (Recover on a read-only handle only checks) *)
Theorem log_open_readonly_keeps_dir (H : bytes -> Z) st c0 st' :
  cro c0 = true -> segs st <> [] -> log_open H st c0 = Ok st' -> segs st' = segs st.
Proof.
  intros Hro Hne. unfold log_open. destruct (opened st); [discriminate|].
  replace (cro (norm_cfg c0)) with true by (symmetry; exact Hro).
  destruct (segs st) as [|s0 r0] eqn:Es; [congruence|].
  destruct (if ccheck (norm_cfg c0) || crecover (norm_cfg c0) then dir_check H (cparams (norm_cfg c0)) st else Ok tt); [|discriminate].
  cbn [bind]. intros E. injection E as <-. reflexivity.
Qed.
