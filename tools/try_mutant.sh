#!/bin/sh
# usage: try_mutant.sh <patch.diff> <check args...>   e.g. try_mutant.sh seeded/x/patch.diff C09 --cases 200
# applies the patch to /repo, runs ./check, reverts the patch (never commits)
P="$1"; shift
cd /repo || exit 9
git diff --quiet || { echo "repo dirty"; exit 9; }
git apply "$P" || { echo "patch does not apply"; exit 9; }
cd /verif && ./check "$@"
rc=$?
git -C /repo checkout -- . 
echo "exit=$rc"
