#!/bin/sh
# usage: save_mutant.sh <prop-id> <name> <needs> <caught-by>   (takes /tmp/mut-<id>-out)
id=$1; name=$2; needs="$3"; caught="$4"; d=/verif/seeded/$name; mkdir -p $d
cp /tmp/mut-$id-out/patch.diff $d/patch.diff; cp /tmp/mut-$id-out/demo_test.go $d/demo_test.go; cp /tmp/mut-$id-out/notes.md $d/notes.md 2>/dev/null
python3 - "$id" "$name" "$needs" "$caught" <<'PY'
import json,sys
id,name,needs,caught=sys.argv[1:5]
json.dump({"breaks":id,"name":name,"needs_to_manifest":needs,
 "confirmed":"tools/verify_mutant.sh in a scratch worktree: demo passes without the patch; with it the tree builds, the existing suite passes, the demo fails",
 "ran":["tools/verify_mutant.sh %s seeded/%s"%(name,name),"tools/try_mutant.sh seeded/%s/patch.diff %s"%(name,id)],
 "caught_by":caught}, open("/verif/seeded/%s/meta.json"%name,"w"), indent=1)
PY
git -C /repo worktree remove --force /tmp/mut-$id 2>/dev/null; rm -rf /tmp/mut-$id-out
