#!/bin/sh
# usage: verify_mutant.sh <name> <dir with patch.diff and demo_test.go>
# confirms in a scratch worktree: demo passes without the patch; with the patch the tree compiles,
# the existing suite passes and the demo fails.  Prints a one-line verdict; removes the worktree.
N="$1"; D="$2"
export GOFLAGS=-mod=mod GOPROXY=off
W=/tmp/vm-$N
git -C /repo worktree remove --force $W >/dev/null 2>&1
git -C /repo worktree add -q --detach $W HEAD || exit 9
cp "$D/demo_test.go" $W/zz_demo_test.go
cd $W
go test -vet=off -count=1 -run 'TestSeededDemo' . >/tmp/vm-$N.base.log 2>&1; base=$?
git apply "$D/patch.diff" || { echo "VERDICT $N patch-does-not-apply"; cd /; git -C /repo worktree remove --force $W; exit 1; }
go build ./... >/tmp/vm-$N.build.log 2>&1; build=$?
# the repository's own TestConcurrent (DeleteRollover, Delete) is flaky on every tree, more so on a busy machine
# (DESIGN 12.3): a failing suite run is repeated, up to three runs in all
for try in 1 2 3; do
  go test -vet=off -count=1 -skip 'TestSeededDemo' ./... >/tmp/vm-$N.suite.log 2>&1; suite=$?
  [ $suite = 0 ] && break
  grep -q -- '--- FAIL' /tmp/vm-$N.suite.log && ! grep -- '--- FAIL' /tmp/vm-$N.suite.log | grep -qv 'TestConcurrent' || break
done
go test -vet=off -count=1 -run 'TestSeededDemo' . >/tmp/vm-$N.demo.log 2>&1; demo=$?
cd /
git -C /repo worktree remove --force $W
echo "VERDICT $N demo_without_patch_rc=$base build_rc=$build suite_with_patch_rc=$suite demo_with_patch_rc=$demo"
[ $base = 0 ] && [ $build = 0 ] && [ $suite = 0 ] && [ $demo != 0 ]
