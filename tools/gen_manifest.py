#!/usr/bin/env python3
"""writes /verif/MANIFEST.json from the table below (kept in one place so it stays valid)"""
import json, os, subprocess
V = os.path.dirname(os.path.dirname(os.path.abspath(__file__)))

COMMON_NOTE = ("Trusted: Coq 8.16.1 kernel; extraction with ExtrOcamlBasic only and the hand-written OCaml driver; the Go harness "
               "kvrun, the generators and the differ (they sample: the tie between model and /repo is differential testing, "
               "re-run against the working tree on every invocation). Modelled, not verified: Go runtime, os file semantics, "
               "the radix-tree library, flock(2), goroutine scheduling. See DESIGN.md section 5.")

CHECKS = {
 'C08': dict(text="Partial. Proved (Coq) for the transition system of Conc.v - the locking protocol of log.go: Publish cut at writerMu.Lock / "
                  "rollover swap under readersMu.Lock / index.append / Unlock; every read cut at RLock / reading the writing segment / "
                  "reading the other segments (either order) / RUnlock; Delete cut at deleteMu.Lock / findDeleteReader / the writerMu "
                  "check / Rewrite (no lock held) / re-validation (count check, retry after rollover) and swap / Unlock; any number of "
                  "threads, every interleaving - by an invariant preserved by every step: the linearization events (each appended by a "
                  "step of the call itself, so between its invocation and return), replayed against the sequential specification, are "
                  "all allowed by it and yield exactly the shared state (linearizability); every completed read returned the "
                  "specification's answer at its linearization point although it reads the writing segment and the others at different "
                  "moments; publishers get disjoint consecutive ranges; a message disappears only through a Delete that reports it; a "
                  "stale Rewrite snapshot is never swapped in; at most one call inside writerMu / deleteMu, swaps only without readers. "
                  "The lazy load / unload of a sealed segment's log file is a second transition system (ReaderGC.v: reader.getMessages "
                  "with its fast path under RLock and slow path under Lock, the deferred release of messagesInuse, reader.GC; cut at every "
                  "lock operation, every look at r.messages, every update of the counter): for any number of reading calls and GC calls "
                  "and every interleaving, no call reads through a closed mapping and GC never closes a mapping counted as in use "
                  "(reads_never_see_a_closed_mapping; invariant: the counter is exactly the number of calls holding a reference, whoever "
                  "holds one sees the file loaded, a GC that passed its test still sees zero because the counter only grows under the "
                  "lock GC holds); its transcription is checked on every run by reading the operations on messagesMu / messagesInuse / "
                  "r.messages of every method of *reader off /repo/log_reader.go (harness/cmd/protoscan, go/ast) and comparing them with "
                  "lib/readergc_protocol.txt. "
                  "Not expressible in the models: Go's memory model and the atomicity of the lock primitives themselves (data-race "
                  "freedom is decided by the race detector), the index lock indexMu, Stat. The transcription of Conc.v is checked the same way "
                  "(the lock operations on writerMu / readersMu / deleteMu of every method of *log in /repo/log.go, in order, against "
                  "lib/log_lock_protocol.txt). The model Conc.v is tied to "
                  "/repo by pause points (tag verif): ~1500 (thorough 20000) placements of one or two calls inside the windows "
                  "publish.written / publish.rolled / delete.found / delete.synced / delete.rewritten of a held call on 1-4 segment logs - "
                  "the implementation's outcome (results of all calls, live messages, NextOffset) must be among the outcomes the extracted "
                  "model allows for that placement (unique for 70%); plus ~3000 placements and free-running 2-8 goroutine mixes under "
                  "-race whose recorded histories are checked for linearizability (porcupine) as supporting search - the calls are Publish, Consume, "
                  "Get, Delete, NextOffset, Sync, GC, Stat, GetByTime, GetByKey and ConsumeByKey, each with its sequential specification "
                  "(Stat: must not fail); and stress workloads in which no call may fail or hang: the start of a log's life, readers "
                  "against GC, tailing consumers with a Stat/NextOffset/GC loop, lookups by time and key against a publisher and a "
                  "deleter, the first use of segments without index files by eight goroutines at once.",
             ref='6/C08', technique='Coq proof (inductive invariant of a small-step model of the lock protocol; linearizability by refinement, all interleavings) + pause-point placements on the real log',
             note="Data-race freedom of the Go code is not a theorem: it is checked by the race detector on the concurrent runs. "
                  "The lazy index load under indexMu and Stat are outside the models. " + COMMON_NOTE),
 'C20': dict(text="Partial. Proved (Coq) on the segment-list model (Backup.v: every segment file of the source copied under its name into the "
                  "target, files the source does not name left alone; a skipped copy has the same content): a backup into an empty "
                  "directory, or repeated into a directory all of whose file names still exist in the source, is the source directory "
                  "itself; Publish with or without rollover keeps every file name (so 'only appended to' gives that premise); the "
                  "backup opens in every mode (hence passes Open with Check) to a handle with the same live messages and NextOffset as the "
                  "source at the time of the call, and by the C03/C04/C09/C10 theorems answers queries alike; the call changes nothing "
                  "in the source but lazily rebuilt index files. Copy mechanics (BackupFiles.v: copyFile on files with content and modification time - a target file whose size "
                  "and mtime equal the source's is kept, otherwise rewritten and given the source's mtime): as long as every file of the "
                  "target under a source name is a PREFIX of that source file (an empty target; the result of an earlier Backup of a source "
                  "that has since only been appended to; whatever a killed Backup leaves: any number of bytes of any file written, that file "
                  "stamped with the time of the kill), a Backup makes every source file appear in the target with exactly the source's bytes "
                  "and time, whatever the modification times in the target are (backup_gives_source, backup_after_killed_backup); the "
                  "premise is maintained by every Backup while the source is only appended to. Not modelled: fsync of the copies "
                  "(same-size rewrites within one mtime tick are out of the stated precondition). Tied to /repo by Segment.Backup of single "
                  "segments into targets holding nothing / prefixes / same-size other content under chosen mtimes, compared with copy_file, and by seeded histories with Backup into fresh and reused directories after appends "
                  "(rollovers, reopen, both versions): the target's file listing, a full observation of the opened backup (Consume, Get, "
                  "key/time lookups, Stat, NextOffset) and Check on every copied segment are compared with the source's observation at "
                  "the time of the call, with the extracted model (backup_dir is extracted, not re-implemented in the driver), and the "
                  "source's own observation before/after.",
             ref='6/C20', technique='Coq proof (backup = source directory; reopen theorem; size-and-mtime skip rule on prefix targets, killed backups) + differential correspondence',
             note="fsync of the copied files is not modelled. " + COMMON_NOTE),
 'C15': dict(text="Proof (Coq): a Hoare rule for the helpers' loop `for offset := OffsetOldest; offset < max && cond; Consume(offset, 32)` "
                  "that holds for every way Consume cuts the log into batches (built on: Consume returns no message only when nothing is "
                  "left); with it, on every state satisfying Inv: FindByOffset selects exactly the live offsets below the bound; FindByCount "
                  "exactly the first count-max offsets (Stat is proved to count exactly the live messages), and TrimByCountMulti leaves exactly "
                  "the newest min(count, max) messages, untouched, with NextOffset unchanged; FindBySize the shortest prefix "
                  "whose removal brings the Stat size minus Size(m) of the selected messages below the target - no more than the estimate "
                  "requires; FindByAge a prefix containing no message newer than the given time, ending at the first newer message, the "
                  "end of the log or a batch boundary at/after the message GetByTime reports; Trim...Multi = find then DeleteMulti removes "
                  "exactly the selection and touches no other message (DeleteMulti over live offsets is proved to remove all of them "
                  "across any number of segments). That the Stat size is below the target after TrimBySize depends on the size estimate "
                  "(Size(m) vs bytes really freed, file headers) and is decided by the run-time check only. Tied to /repo by seeded "
                  "histories calling the four Find functions and Trim...Multi with bounds drawn around the live range/count/size/times "
                  "(incl. OffsetOldest/Newest, 0, beyond, empty log, non-monotone times): selections and deleted sets compared with the "
                  "extracted model, and judged by prefix/bound checkers (check_find_*, check_trim) on the implementation output.",
             ref='6/C15', technique='Coq proof (loop rule over arbitrary batching; exact selections; find+DeleteMulti composition) + differential correspondence'),
 'C16': dict(text="Proof (Coq): FindUpdates / FindDeletes on every state satisfying Inv are pure folds over the live messages not newer than "
                  "the cut-off (one forward pass tracking the last offset per key / first-seen value-less messages), for any batching of "
                  "Consume; what they select: only messages followed by a later examined message with byte-equal key (resp. only value-less "
                  "messages that are the first message of their key); CompactUpdates (find then DeleteMulti) leaves the last live message of "
                  "every key unchanged, removes only such messages not newer than the cut-off, keeps every other message and NextOffset; "
                  "CompactDeletes leaves the latest VALUE of every key unchanged (a key whose only message is value-less is absent before "
                  "and after); hence so does Compact, their composition. Completeness: every examined message followed by a later examined "
                  "message with the same key is selected, so at most one message per key is left among those not newer than the cut-off "
                  "(and when the times of the live messages never decrease these are all of them: no two remaining messages not newer than "
                  "the cut-off share a key - compact_updates_one_per_key). compact.go's Compact (CompactUpdates, then CompactDeletes unless the "
                  "first failed, then GC) is a step of the extended history theorem (XHistory.compact_both): in any state of a handle, for "
                  "any two cut-offs, the log afterwards is the log before minus exactly what its passes removed; the harness calls the "
                  "real Compact with cut-offs after every message and requires exactly the last valued message of every key to be left. "
                  "Tied to /repo by seeded histories over a small key alphabet with value-less messages and "
                  "cut-offs around the time range: the key -> latest value map from a full scan before/after every Compact* call, the set "
                  "of removed offsets, compared with the extracted model and judged by check_latest_preserved / check_updates / "
                  "check_deletes on the implementation output.",
             ref='6/C16', technique='Coq proof (folds, soundness of the selection, latest-value preservation, DeleteMulti composition) + differential correspondence'),
 'C10': dict(text="Proof (Coq), for every hash function: on every state reached by ANY history (publishes with rollover, deletes, reads "
                  "with lazy index rebuilds, close/reopen in any mode, index removal, Migrate, Recover) that keeps its index options and "
                  "whose publish times never decrease and are not negative, GetByTime returns the live message with the smallest offset "
                  "whose time is not before the argument, ErrNotFound if every live message is earlier, ErrInvalidOffset/NotFound without "
                  "live messages, ErrNoIndex without the time index - for any number and layout of segments (empty ones included), after "
                  "any deletes, and whether an index was read from its file or rebuilt. The proof: an invariant over histories with a "
                  "ghost bound T (largest time published so far): index files are exactly the derived ones (KInv) and their timestamps "
                  "equal the message times (TS); the newest-to-oldest walk with its before-start/after-end hand-off equals 'first "
                  "message at or after ts of the concatenation' for every segmentation; the in-segment lower bound is characterised for "
                  "arrays of any length. The read-only handle of an empty directory is a reachable state of these histories too and is "
                  "covered (C10_on_all_monotone_histories). OffsetByTime (the lookup, then offset and time of what it found) is a function "
                  "of the model with its own theorem: offset and time of the first live message not before ts. The known finding F11 (pre-1970 times) is a theorem of the model too (a vm_compute witness). Tied to /repo "
                  "by seeded histories with monotone times (ties, equal runs, jumps, tiny rollover sizes, deletes, reopen with index "
                  "removal): GetByTime/OffsetByTime for every t in [min-2, max+2] after every step, compared with the extracted model and "
                  "judged by check_get_by_time; non-monotone histories are compared with the model only.",
             ref='6/C10', technique='Coq proof (invariant over monotone histories; time lookups refine the abstract log) + differential correspondence'),
 'C09': dict(text="Proof (Coq), for EVERY hash function (in particular one under which all keys collide): on every state satisfying KInv - "
                  "Inv plus: every index file present is exactly the index derived from its log file, key hashes included - GetByKey "
                  "returns the live message with the greatest offset whose key is byte-for-byte the argument (nil and empty keys are the "
                  "same byte string), ErrNotFound if none; ConsumeByKey at any offset/maxCount returns a run of the live messages with "
                  "exactly that key at or after the offset, in offset order, none stepped over, at most max(maxCount,1), next = last+1, "
                  "NextOffset when nothing is left or for OffsetNewest; ErrNoIndex without the key index; OffsetByKey (the lookup, then the "
                  "offset of what it found - a function of the model, log_offset_by_key) returns the offset of that same message, "
                  "ErrNotFound exactly when there is none. KInv is proved to hold on every "
                  "state reachable by any history (publishes with rollover, deletes, reads with lazy index rebuilds, close/reopen in any "
                  "mode, index-file removal, Migrate, Recover) that keeps its index options. Tied to /repo by seeded histories over a small "
                  "key alphabet that includes three verified FNV-1a-64 collision pairs and nil/empty keys: GetByKey, OffsetByKey and "
                  "ConsumeByKey (iterated from OffsetOldest and at random offsets/maxCounts) for every key of the alphabet after every step, "
                  "compared with the extracted model and judged by check_get_by_key / check_consume_by_key on the implementation output.",
             ref='6/C09', technique='Coq proof (exact-index invariant over histories; key lookups refine the abstract log) + differential correspondence with extracted model'),
 'C07': dict(text="Proof (Coq), for every checksum function with 32-bit values and every byte string: the transcribed readV1/readV2 "
                  "accept only byte-for-byte valid records (decoder soundness for both versions), so the scan shared by Recover and Check "
                  "returns a back-to-back run of valid records and stops at the first position that holds none; Recover (recover_bytes) on "
                  "ANY file - truncated at any byte, zero-filled, bit-flipped, garbage after any number of records - returns the encoding of "
                  "messages that is a prefix of the old file and is followed by no valid record (precisely the longest valid prefix), with an "
                  "index that is absent, the untouched old one if it reads as the derived items, or the encoding of the derived items; it is "
                  "a byte-for-byte no-op on an undamaged segment; Check succeeds iff the log is the encoding of messages and the index, if "
                  "present, reads as the derived index; after Recover Check succeeds, a second Recover is the identity, and Check keeps "
                  "succeeding after appends; index files round-trip (both versions, four layouts); a record cut anywhere inside is "
                  "classified as corruption. The known finding F14 (a 1..7 byte head file is refused) is a theorem of the model too. Tied "
                  "to /repo by running segment.Check / segment.Recover on generated head segments (0-6 records, both versions, all index "
                  "states) with every truncation, bit flips, zero fills and garbage tails: resulting files compared byte for byte with the "
                  "model and judged by an independent encoder-based reference parser (RecoverSpec.v); re-check and append after recover.",
             ref='6/C07', technique='Coq proof (decoder soundness, longest-valid-prefix, Check iff, idempotence) + byte-level differential sweep'),
 'C05': dict(text="Partial. Proved (Coq): (1) on one segment's bytes, for every checksum function: a crash part-way through the append "
                  "of a record (any proper prefix of it on disk) after any number of complete records, whatever the index file holds, is "
                  "recovered to exactly the complete records (published messages, possibly followed by a prefix of the batch); a crash "
                  "between appends leaves the log file unchanged; whatever Recover returns consists only of valid records of the old "
                  "file from its start; the result passes Check, a second Recover changes nothing, the file can be appended to and "
                  "still passes Check. (2) on the directory (CrashDir.v): the in-place swap of delete-by-rewrite (remove index, rename "
                  "log, rename index) and the removal of an emptied segment, for a segment anywhere in the directory - a process that "
                  "dies after ANY prefix of these programs leaves a well-formed directory whose content is the log before or the log "
                  "after the Delete (all or nothing), every index file absent or the derived one, and Open in any mode re-establishes "
                  "Inv on it (hence all views agree). The swap of a REBASING delete is proved NOT to have this property (known finding "
                  "F6: after its first step both the old and the rewritten segment exist). (3) the creation of a new empty head at NextOffset "
                  "(log file, then index file): after either step the directory is well formed and holds the same log - this is every "
                  "directory step of a Publish (rollover; publish_prog), and the first steps of a Delete that removes the newest message of "
                  "the writing segment (repair F8), for which the whole programs (new head, then in-place swap; new head, then removal of "
                  "the old files) are proved crash-safe, so NextOffset never moves backwards. (4) Recover itself (RecoverCrash.v: "
                  "Segment.Recover as a program of file-system steps on the log, the index, <log>.recover and <index>.tmp, index.Write "
                  "included; the program is compared with the FS tap of the real Recover on every damaged head of the C05/C07/C13 runs): "
                  "for ANY bytes in the log file, any or no index file, stale temporary files, any number of completed steps and any "
                  "part of an append in flight, running Recover on what the crash left gives the same log file as the uninterrupted "
                  "Recover and an index that is the same or absent, and the segment passes Check (recover_restartable); run to its end "
                  "the program leaves exactly what Codec.recover_bytes computes. (5) Migrate of a segment (migrate_prog: remove the index, "
                  "re-encode into <log>.migrate, rename, index.Write; bytes and steps compared with the real Segment.Migrate): for a "
                  "clean segment, after any k steps and any part of an append in flight the segment passes Check and its log is the "
                  "encoding of exactly the same messages, in the old or the new version (migrate_crash_safe). The whole directory, at the level of records (CrashOpen.v): a directory all of whose segments are well formed except that the "
                  "index file of the newest segment holds ANYTHING (missing, a prefix, stale items - what a crash during a Publish, a "
                  "rollover or an index write leaves) opens with Recover to a handle that satisfies the log invariant and shows exactly "
                  "the records of the log files (crash_open_recovers); hence a Publish cut short after any number k of complete records, "
                  "in any reachable state, with the rollover it required, reopens to exactly the log before it plus the first k messages "
                  "of the batch with the offsets Publish assigns (publish_crash_recovers). Tied to /repo by "
                  "the FS tap (tag verif): 40+ workloads (publish batches with rollover, all delete shapes, reopen with Recover, migrate), "
                  "the file-system steps of every Delete and every Publish compared with the programs CrashDir.delete_prog / publish_prog compute, a directory "
                  "image after every file-system step plus torn variants of every append; each image is opened with Recover on the "
                  "implementation and on the model (loaded from the same bytes): full observation compared, acked-state oracle "
                  "(published-and-not-deleted, prefix of in-flight batch, delete all-or-nothing), views agree, NextOffset monotone, "
                  "second Recover identical, append + Check + recover again. Known findings F6 and F14; five other defects were fixed.",
             ref='6/C05', technique='Coq proof (torn-append recovery on bytes; crash-safety of the swap programs on the directory) + exhaustive crash-image enumeration through an FS tap',
             note="The byte-level theorems are about one segment's files; over a whole multi-segment directory the composition is proved at the "
                  "level of records for Publish (CrashOpen.v) and of whole segments for Delete (CrashDir.v); that a torn record is cut by "
                  "Recover is the byte-level theorem, and the step from bytes to records in a multi-segment directory is exercised by the "
                  "crash harness (every FS step of 45+ workloads), not proved. " + COMMON_NOTE),
 'C06': dict(text="Partial. Proved (Coq): a clean log file cut at ANY byte at or after its header (what a power loss leaves when it keeps a "
                  "prefix at least as long as the fsynced length) is recovered to exactly the records lying entirely below the cut: a prefix "
                  "of what was written, containing every record below the synced length; the result is clean (Check passes, Recover "
                  "idempotent). On the table of files with their fsynced lengths (Durable.v, the map the FS tap keeps), for the create / "
                  "write / fsync steps of Publish (rollover included), Sync and Close as decided from the model state: every file of a "
                  "sealed segment is entirely on stable storage at all times (the retiring head's log and index are fsynced before the "
                  "new head exists); when Sync or Close returns, or a Publish on a log opened with AutoSync, every file is; and after "
                  "ANY later steps a power loss (each file cut to any length between its fsynced length and its length) leaves of every "
                  "file at least the bytes it had when that Sync returned. During Recover, Migrate and index.Write (their programs of file-system steps, fsyncs included, in "
                  "RecoverCrash.v) the segment's log and index files are durable after EVERY step - both only write to temporary "
                  "files, fsync them and rename them into place (live_durable theorems) - so a power loss inside them leaves one of the "
                  "crash images of the C05 theorems, never a torn live file. Delete (DurableDelete.v): the complete program of a Delete on "
                  "that file table - writer.Sync when the target is the writing segment, Segment.Rewrite with its two fsyncs, writer.Sync "
                  "again, then the renames / removals / creation of a new writing segment of CrashDir.delete_prog, decided from the model "
                  "state as Model.log_delete decides - keeps, after EVERY step, every <base>.log / <base>.index file other than those of "
                  "the writing segment and of a header-only writing segment the Delete creates entirely on stable storage "
                  "(delete_steps_keep_durable; the proof uses that the rewritten files are fsynced before they take a segment's name), "
                  "and leaves its temporary files durable; and Delete is a link of the same chain as Publish / Sync / Close: if every "
                  "file but the two of the writing segment was durable before, the same holds after the call for the writing segment of "
                  "the state Model.log_delete returns (delete_step_sealed; after a Delete in the writing segment that keeps the newest "
                  "message every file is durable). NOT proved: how this composes with the byte-level theorems over a whole "
                  "directory. Tied to /repo by comparing the write / fsync / create events of every Publish, "
                  "Sync and Close with the steps Durable.v computes, every file-system step of every Delete (syncs, rewrite, swap) with "
                  "DurableDelete.delete_full, and by power-loss images synthesized from the tap: every file cut to its "
                  "fsynced length (and to every length between that and its current length at record granularity), unsynced creates/renames "
                  "dropped per directory-fsync; each image recovered on implementation and model; oracle: every live message below the last "
                  "acknowledged offset (Sync return, AutoSync Publish return, Close) present, survivors a prefix of the acknowledged "
                  "sequence, NextOffset >= acknowledged offset.",
             ref='6/C06', technique='Coq proof (recovery of a log cut at any byte keeps everything below the cut; fsync protocol of Publish/Sync/Close/Delete on a file table) + power-loss image enumeration through an FS tap',
             note="The programs of file-system steps are tied to the code by comparison with the FS tap on finite workloads; file-system semantics (prefix-preserving loss, "
                  "directory fsync) are the harness's assumption. " + COMMON_NOTE),
 'C01': dict(text="Proof (Coq): for every history of API calls on one directory - Open in any mode (Check/Recover/EagerVersionMigrate, "
                  "read-write or read-only, any rollover size, either format version), Close, Publish, Delete, Consume, Get, GetByKey, "
                  "ConsumeByKey, GetByTime, NextOffset, Stat (incl. their lazy index rebuilds), removal of any index files, Migrate and "
                  "Recover of the closed directory - of any length, every reachable state of the segment-list model is Good (closed and "
                  "well-formed, open with Inv, or the virtual read-only handle of an empty directory) and its abstract log is the fold of the "
                  "abstract steps: a successful Publish appends exactly its messages, a successful Delete removes exactly what it reported, "
                  "nothing else changes the live messages or NextOffset (history_refines) - in particular a Publish that fails, a batch "
                  "refused for an oversized message after the writing segment was rolled over included, publishes nothing; Consume/Get on any such state show exactly that "
                  "abstract log, in strictly increasing offset order (C03/C04 theorems). The helper calls - DeleteMulti, TrimByOffset/Count/"
                  "Size/Age (Multi), CompactUpdates, CompactDeletes, Compact - and GC are steps of the same histories (XHistory.v, "
                  "xhistory_refines): whatever a helper returns, also an error after some of its passes have removed messages, the log "
                  "afterwards is the log before minus exactly the messages it reported, NextOffset unchanged (GC only drops caches: the "
                  "identity of the model); the driver of the correspondence executes these very steps (xh_step). A message of exactly "
                  "the maximal size (64 MiB, too large for the model) is published and read back on the implementation alone. "
                  "Tied to /repo by seeded histories over all those operations incl. trims, compaction, GC and reopen with "
                  "random options: every result line is compared with the extracted model, and after every step a full scan of the "
                  "implementation is checked against the abstract log built only from what the implementation reported.",
             ref='6/C01', technique='Coq proof (history-level refinement to an abstract log by invariant) + differential correspondence with extracted model'),
 'C11': dict(text="Proof (Coq): in every state reached by a history that keeps its index options (publishes with rollover, deletes, reads, "
                  "close/reopen in any mode, index removal, Migrate, Recover) every index file present - of every segment, not only the "
                  "newest - is header-only or EXACTLY the index derived from its log file: offsets, positions and key hashes always; "
                  "timestamps as the running maximum from a start value (0 when rebuilt, the carried time when written by the writer), "
                  "which equals the message times whenever these never decrease; Close leaves every segment well-formed; removing any "
                  "subset of index files keeps the directory well-formed with the same content; reopening it in any mode (read-write or "
                  "read-only, Check/Recover/eager migration) re-establishes the invariants with the same messages and NextOffset, so by "
                  "the C03/C04/C09 theorems Consume, Get and key lookups answer identically (time lookups: C10); the lazy rebuild returns "
                  "the derived index. Tied to /repo by seeded histories: segment.Check on every segment of every closed directory "
                  "(monotone times), and twin sessions with and without index files whose query answers (Consume, Get, key/time "
                  "lookups, Stat) are compared line by line and with the extracted model; an index that lags its log (idxcut) must be "
                  "repaired by Open with Recover; and the first queries of eight goroutines at once on a reopened log without index "
                  "files must all succeed and leave index files that pass Check (creindex).",
             ref='6/C11', technique='Coq proof (exact-index invariant over histories, index removal, reopen) + differential correspondence'),
 'C17': dict(text="Proof (Coq): Migrate of a closed directory preserves every message and NextOffset, leaves every segment in the requested "
                  "version, and a second Migrate is the identity; Open with EagerVersionMigrate (and every other mode) of a directory whose "
                  "segments use any mix of versions shows the same abstract log; delete-by-rewrite changes the abstract log only by the "
                  "reported messages whatever the rewrite version (KeepRewriteVersion or not); the history theorem covers arbitrary "
                  "interleavings of these with publishes in NewSegmentsVersion - the abstract log never depends on segment versions, i.e. "
                  "mixed-version logs behave like single-version ones. Tied to /repo by seeded histories mixing V1/V2 publishes, deletes with "
                  "both KeepRewriteVersion settings, Migrate and eager opens: all results compared with the extracted model, every C01-C04, "
                  "C09, C10, C12 checker evaluated on them, and the version byte of every segment file after Migrate / rewrite / rollover "
                  "checked, as well as byte-identical listings after a second Migrate. One segment at the byte level (RecoverCrash.migrate_prog, "
                  "tied to Segment.Migrate by comparing bytes and file-system steps on encoder-written segments): run to its end the program "
                  "leaves the log in the requested version holding the same messages and the index derived from it "
                  "(C17_segment_migrate_result); interrupted after any step the segment still passes Check with the same messages "
                  "(C17_migrate_crash_safe); the migrated files must equal what the independent encoder writes for the target version.",
             ref='6/C17', technique='Coq proof (migration/open/rewrite preserve the abstract log; idempotence) + differential correspondence'),
 'C12': dict(text="Proof (Coq): in every state satisfying Inv, for every offset set and every hash function, a successful Delete of the model "
                  "reports exactly the requested records of the segment holding the smallest requested offset (full content), the abstract "
                  "log afterwards is the old one minus exactly those messages, NextOffset and the invariant are preserved and the size is the "
                  "sum of record + index-item sizes in the source format - in all structural outcomes (reader / writing segment; same base, "
                  "rebased, emptied, newest message removed with a fresh empty head); the result is accepted by check_delete; relative offsets "
                  "give ErrInvalidOffset, the empty set is a no-op; deleting offsets none of which is live (in particular deleting again) "
                  "deletes nothing and leaves the state as it is; DeleteMulti over any set of live offsets, spread over any number of "
                  "segments, removes all of them and nothing else, reports exactly them and no error (each pass makes progress on the "
                  "lowest live offset); DeleteMulti in ANY state of a handle, over ANY offset set and whatever it returns (also an "
                  "error after some passes) has removed exactly the messages it reports (log_delete_multi_good). A Delete that is cut "
                  "short (every file-system step of the delete workloads as the point where the call stops) is judged on the "
                  "implementation: after Open(Recover) the log is the one before or the one after, nothing else is missing. Tied to /repo by seeded histories with offset sets "
                  "drawn by class (first/last/single/subset/range/all/tail/head/dead/unassigned/mixed), Delete and DeleteMulti results "
                  "compared with the extracted model and evaluated by check_delete/check_delete_multi with the exact per-message source "
                  "format read from the file headers.",
             ref='6/C12', technique='Coq proof (refinement of Delete to the abstract log, invariant preservation) + differential correspondence'),
 'C13': dict(text="Proof (Coq), for every checksum function with values below 2^32: the transcribed V1/V2 decoder applied to the "
                  "documented encoding of any message within the writer's guards, anywhere in a file, returns that message and the next "
                  "position; a whole encoded log scans back to exactly its messages at the prefix-sum positions; encoded record and "
                  "index-item lengths equal Size/Params.Size; conversely whatever the V2 decoder accepts is byte for byte the documented "
                  "encoding of what it returns (also proved for V1), and the encoding is injective; index files (both versions, all four "
                  "layouts) round-trip through index.Write / index.Read; Stat of the log-level model reports exactly the number of live "
                  "messages. The layout is tied to /repo byte for byte: files written by message.Writer / "
                  "index.Write for random messages (lengths 0..300, int64 extremes, both versions, four index layouts) must equal the Coq "
                  "encoder's bytes, and encoder-written files must be read back identically by the file and the mmap reader; Stat vs live "
                  "count and vs the sum of file sizes after every op of seeded histories.",
             ref='6/C13', technique='Coq proof (round trip, soundness, sizes of the byte layouts) + byte-level differential correspondence'),
 'C14': dict(text="Partial. Proved (Coq): anything the V2 reader returns from an arbitrary byte string is a complete CRC- and "
                  "trailer-consistent record really present at that position, so a result differing from the published message requires the "
                  "damaged bytes to be a full valid encoding of another message (the residual, unproved premise is that in-place damage does "
                  "not forge one - a CRC-32C collision; for damage confined to ONE byte, so for every single-bit flip and 1-byte overwrite, "
                  "this is proved for the CRC-32C of Codec.v: two strings one byte apart have different checksums, and a V2 record "
                  "damaged in one byte is never read back with its size unchanged - the read fails unless a length field was hit; "
                  "CrcBurst.v extends this to every overwrite confined to a window of at most FOUR consecutive bytes, i.e. any burst of up to "
                  "32 bits, that does not straddle the end of the record's checksum field: the register update is linear over GF(2) and "
                  "injective on 32-bit values, so two equally long strings that differ only inside such a window have different checksums "
                  "(crc32c_burst, burst_damage_detected); for longer windows, and for one covering bytes of the checksum field and of the data "
                  "behind it, CRC-32C gives no guarantee and none is claimed); "
                  "the answer of a read depends only on the bytes of the record read, so calls answered "
                  "from untouched bytes are unchanged; length fields are guarded by the 64 MiB bound and slices never exceed the file. Tied "
                  "to /repo by a sweep over multi-segment V2 logs with one log file damaged (bit flips, 1-8 byte overwrites, every "
                  "truncation, zero tails; index intact): every Consume/Get/GetByKey/ConsumeByKey/GetByTime result is compared with the "
                  "byte-level reader model (BytesLog.v) and checked: no panic, no message differing from the published one, error when "
                  "the answer would include an overwritten record, unchanged answers for calls independent of the damaged file.",
             ref='6/C14', technique='Coq proof (decoder soundness/extensionality) + exhaustive damage sweep against the byte-level reader model',
             note="Residual premise crc_detects (no CRC-32C collision produced by the damage) is proved for damage confined to a window of at most four bytes (one-byte damage anywhere; 2-4 byte windows unless they straddle the end of the checksum field); memory use of the Go "
                  "runtime is not modelled. " + COMMON_NOTE),
 'C18': dict(text="Partial. Proved (Coq) for the transition system of Notify.v - Wait/Set/Close cut at every channel operation and "
                  "atomic access, any number of threads, every interleaving, by an invariant preserved by every step: token discipline "
                  "(no send on a closed or full barrier, no double close), no lost wake-up (a waiter parked on an open channel has an offset "
                  "NextOffset has not passed unless the holder is about to close that channel), hence: once a Set has finished and NextOffset "
                  "passed the offset the waiter is enabled and returns; it is woken only by a step of Set or Close; immediate return below "
                  "NextOffset; a wait reaching the barrier after Close fails. What a woken ConsumeBlocking returns is Consume at that moment "
                  "(C03). The model is tied to /repo by stepping real goroutines through pause points added to pkg/notify (tag verif): ~3000 "
                  "schedules (60000 thorough) of 1-3 waiters, 0-2 Set, 0-2 Close with cancellations - of parked waiters and, pending until "
                  "the final select, of waiters still on their way (Notify.xstep, proved to add no behaviour to the base system); the "
                  "status of every thread afterwards must equal the model's; and the transcription itself is checked on every run: the channel "
                  "and atomic operations of Wait / Set / Close (receives and sends on the barrier, closes, the final select, Load / Store "
                  "with their guards, the pause points) are read off /repo/pkg/notify/notify.go (harness/cmd/protoscan, go/ast) and compared "
                  "with lib/notify_protocol.txt.",
             ref='6/C18', technique='Coq proof (inductive invariant of a small-step model, all interleavings) + pause-point schedules on the real notifier',
             note="Not expressible in the model: atomicity of a Go channel operation and of atomic.Int64, and scheduler fairness (liveness "
                  "is stated as enabledness). " + COMMON_NOTE),
 'C19': dict(text="Partial. Proved (Coq) for the lock-table model of Flock.v, over every sequence of Open (both modes, succeeding or "
                  "failing), Close, Publish, Delete on any number of handles: an exclusive lock excludes all other handles, a read-write "
                  "Open needs a free directory, a read-only Open only the absence of a writer, a failed Open leaves the table unchanged, "
                  "read-only handles reject Publish/Delete with ErrReadonly (also on the log model). A read-only and a read-write Open of "
                  "the same closed directory are proved to show the same abstract log (so by the C03/C04/C09/C10 theorems they answer "
                  "queries alike; the checkers are also evaluated on read-only sessions of generated histories). The model is tied to /repo by running "
                  "every sequence of <=3 steps (4 in thorough) plus random ones on real handles: two in-process and one in a child process, "
                  "with corrupt-index and missing-directory opens; log-file checksums show read-only sessions change no log file.",
             ref='6/C19', technique='Coq proof over a lock-table model + exhaustive short sequences on real flock handles',
             note="Not expressible in the model: flock(2) itself (the model is the textbook shared/exclusive table, validated only by "
                  "the runs, incl. a second process). " + COMMON_NOTE),
 'C02': dict(text="Proof (Coq): in every state satisfying Inv (any segment layout, after any deletes incl. tail deletes and an emptied log), "
                  "Publish of n messages on a read-write handle returns NextOffset+n, assigns exactly NextOffset..NextOffset+n-1 whatever "
                  "offsets the caller supplied, with or without rollover, preserves Inv and extends the abstract log by exactly those "
                  "messages (refinement to spec_publish). NextOffset of the model is a function of the abstract state, which Consume/Get "
                  "are proved not to change. Tied to /repo by seeded histories biased to delete-last/delete-all -> reopen -> publish chains; "
                  "Publish return values, written-back offsets, NextOffset and Sync are compared and checked by check_publish/check_next on "
                  "the implementation output. Never reused: over every history (deletes of the newest messages or of everything, close/reopen "
                  "in any mode, migration, recovery) the offsets assigned by all successful publishes are strictly increasing in order of "
                  "assignment, pairwise distinct and below the final NextOffset (history_refines + assigned_nodup).",
             ref='6/C02', technique='Coq proof (publish refinement, invariant preservation) + differential correspondence with extracted model'),
 'C04': dict(text="Proof (Coq): in every state satisfying Inv, for every offset (all non-negative ones, OffsetOldest, OffsetNewest) and every "
                  "hash function, the model's log.Get is accepted by check_get: exactly the live message with that offset; ErrNotFound for an "
                  "assigned-but-deleted offset; ErrInvalidOffset for an unassigned one; first/last live message for the relative offsets incl. "
                  "an empty head segment; plus the theorem that any Get and Consume(off,1) results accepted by the checkers agree. The "
                  "exact-match binary search and segment.Get are characterised for arrays of any length. Tied to /repo by Get(off) for every "
                  "off in {-2,-1} and [0,next+2] after every op of seeded histories, compared with the extracted model and evaluated by "
                  "check_get / check_get_consume_agree on the implementation output.",
             ref='6/C04', technique='Coq proof (invariant + refinement to L0 checker) + differential correspondence with extracted model'),
 'C03': dict(text="Proof (Coq) that in every state satisfying the model invariant Inv, for every offset, every maxCount>=1 and every "
                  "hash function, the model's log.Consume is accepted by the L0 checker check_consume (prefix of the live messages at/after "
                  "the offset, next=last+1, no live message stepped over, OffsetNewest, ErrInvalidOffset beyond NextOffset); the transcribed "
                  "binary searches of index.Consume / segment.Consume are characterised for arrays of any length incl. their termination "
                  "(fuel) argument; Consume returns no message only when nothing is left at or after the offset, and feeding the returned "
                  "offset back from OffsetOldest visits every live message exactly once, in order, and stops at NextOffset "
                  "(full_scan_correct, every maxCount >= 1). The model is tied to /repo by running the same seeded histories on klevdb and on the extracted model "
                  "and comparing every Consume(off,max) for off in [-5,next+2]; the same checker is evaluated on the implementation's own "
                  "output to exhibit a failing history.",
             ref='6/C03', technique='Coq proof (invariant + refinement to L0 checker) + differential correspondence with extracted model'),
}

def main():
    hooks = dict(guard='verif', enable='go build -tags verif (harness module /verif/harness, replace github.com/klev-dev/klevdb => /repo)',
                 baseline_off_cmd='cd /repo && GOFLAGS=-mod=mod GOPROXY=off go test -json -vet=off -count=1 -timeout 25m ./...',
                 source_commits=[], add_only=True)
    hp = os.path.join(V, 'hooks_commits.txt')
    if os.path.exists(hp):
        hooks['source_commits'] = [l.split()[0] for l in open(hp) if l.strip()]
    checks = []
    for pid in sorted(CHECKS):
        c = CHECKS[pid]
        checks.append(dict(property_id=pid, quick_cmd='./check %s --tier quick' % pid,
                           thorough_cmd='./check %s --tier thorough' % pid,
                           evidence_file='/verif/evidence/%s.json' % pid,
                           replay_cmd_template='./check %s --replay {path}' % pid,
                           engine='coq-model+correspondence',
                           level_claimed=dict(category='proof', text=c['text'], design_ref=c['ref']),
                           level_note=c.get('note', COMMON_NOTE), technique=c['technique']))
    na = []
    m = dict(version=1, setup_cmd='./setup.sh', hooks=hooks,
             engines=[dict(name='coq-model+correspondence', path='/verif/check',
                           serves_properties=sorted(CHECKS), kind_free_text='Coq 8.16 model and theorems (coq/), extracted OCaml model (model/), Go harness (harness/), Python orchestrator (check, lib/)')],
             checks=checks, not_applicable=na,
             notes='every check: go build of the harness against /repo working tree, corpus + seeded histories on implementation and extracted model, Spec.v checkers on the implementation output, coqc of coq/Properties/<id>.v with Print Assumptions parsed, evidence rewritten')
    json.dump(m, open(os.path.join(V, 'MANIFEST.json'), 'w'), indent=1)
    print('manifest written:', len(checks), 'checks')

if __name__ == '__main__':
    main()
