#!/bin/sh
# usage: try_mutant_iso.sh <name> <patch.diff> <check args...>
# tries a seeded change WITHOUT touching /repo: scratch worktree of /repo + the patch, a copy of the harness module
# pointing at it, outputs under /tmp/mi-<name>-out.  Several can run at once.  Everything is removed afterwards
# except /tmp/mi-<name>.log (the check's output) and the replay files it names (copied next to the log).
N="$1"; P="$(readlink -f "$2")"; shift 2
W=/tmp/mi-$N; H=/tmp/mi-$N-h; O=/tmp/mi-$N-out
git -C /repo worktree remove --force $W >/dev/null 2>&1; rm -rf $W $H $O
git -C /repo worktree add -q --detach $W HEAD || exit 9
( cd $W && git apply "$P" ) || { echo "patch does not apply"; git -C /repo worktree remove --force $W; exit 9; }
mkdir -p $H $O && cp -r /verif/harness/cmd /verif/harness/go.mod $H/ && sed -i "s#=> /repo#=> $W#" $H/go.mod
cd /verif && KV_ISO_REPO=$W KV_ISO_HARNESS=$H KV_ISO_OUT=$O ./check "$@" > /tmp/mi-$N.log 2>&1
rc=$?
for r in $(grep -o 'replay=[^ ]*' /tmp/mi-$N.log | cut -d= -f2); do cp "$r" /tmp/mi-$N.replay 2>/dev/null; done
git -C /repo worktree remove --force $W; rm -rf $W $H $O
echo "exit=$rc $(grep -h 'VIOLATION\|^OK\|BROKEN' /tmp/mi-$N.log | head -3 | tr '\n' ' ')"
