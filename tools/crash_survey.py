#!/usr/bin/env python3
"""survey: which crash signatures fail which clauses (development aid)"""
import sys, os, random, collections
sys.path.insert(0, os.path.join(os.path.dirname(os.path.abspath(__file__)), '..', 'lib'))
import kv, crash, codec
tier = sys.argv[1] if len(sys.argv) > 1 else 'quick'
kv.build_impl(); kv.build_model()
rng = random.Random(codec.kv_seed(1, 'c05'))
wl = crash.workloads(rng, tier)
d, paths = crash.run_crash(wl, 'survey')
cnt = collections.Counter(); ex = {}
for p in paths:
    impl = crash.parse_impl(p + '.impl')
    runs = {n[:-4]: c for n, c in impl.items() if n.endswith('@run')}
    view = collections.defaultdict(list)
    for l in open(p + '.pcheck'):
        m = kv.PFAIL.match(l.rstrip('\n'))
        if m: view[m.group(1)].append(m.group(4))
    for name, img in impl.items():
        if name.endswith('@run'): continue
        run_ops = runs[name.split('@')[0]]['ops']
        fails = crash.p_image(name, img, crash.acked_states(run_ops), run_ops)
        cl = sorted({f[0] for f in fails} | {'view:' + v for v in view.get(name, [])})
        if cl:
            sig = crash.crash_signature(img, run_ops)
            key = (name.split('-k')[0], sig['inflight'], sig['event'], sig['path'], sig['torn'], tuple(cl))
            cnt[key] += 1; ex.setdefault(key, name)
for k, v in sorted(cnt.items()):
    print(v, k, ex[k])
import shutil; shutil.rmtree(d, ignore_errors=True)
