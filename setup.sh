#!/bin/sh
# builds the Coq tree (full .vo), the extracted model and warms the Go build cache
set -e
cd "$(dirname "$0")"
export GOFLAGS=-mod=mod GOPROXY=off
mkdir -p .work evidence
( cd coq && coq_makefile -f _CoqProject -o Makefile >/dev/null && timeout 3000 make -j16 )
( cd model && ./build.sh )
( cd harness && cp /repo/go.sum . && go build -tags verif -o bin/kvrun ./cmd/kvrun )
echo setup-ok
