(* Extract.v — extraction of the executable model to OCaml.
   Directives: those of ExtrOcamlBasic only (bool, option, unit, list, prod,
   sumbool, sumor; andb/orb inlined).  Z, N, positive, nat stay inductive. *)
Require Extraction.
Require Import ExtrOcamlBasic.
From KV Require Import Base Hash Model Helpers Spec Codec RecoverSpec RecoverCrash BytesLog Dir Flock Notify Backup Conc CrashDir History XHistory Durable DurableDelete BackupFiles.

Extraction "kvmodel.ml"
  Z.add Z.mul Z.sub Z.div_eucl Z.compare Z.of_nat Z.to_nat Z.of_N Z.to_N Z.eqb Z.ltb Z.leb
  N.add N.mul N.div_eucl N.compare
  classify fnv64a
  init_state log_open log_close log_publish log_consume log_consume_by_key
  log_get log_get_by_key log_get_by_time log_offset_by_key log_offset_by_time log_next log_delete log_stat log_msg_size
  dir_migrate dir_check dir_check_all dir_recover dir_stat rm_index_at set_segs set_idx
  find_by_offset find_by_count find_by_size find_by_age find_updates find_deletes
  log_delete_multi trim_multi full_scan scan_fuel
  seg_log_size idx_size hdr_size item_size
  index_consume index_get index_time seg_consume seg_get
  empty_log spec_publish check_publish check_next check_consume check_get check_get_consume_agree
  check_get_by_key check_consume_by_key check_get_by_time check_delete spec_delete check_delete_multi
  check_stat_count check_find_by_offset check_find_by_count check_find_by_size check_find_by_age
  check_find_updates check_find_deletes check_latest_preserved check_scan mono_times rec_size
  crc32c enc_rec enc_log enc_log_header read_rec log_version scan_log scan_fuel_of enc_index index_read
  check_bytes recover_bytes recover_prog migrate_prog rrun enc_item check_recover check_check valid_prefix derive scan_items
  do_backup backup_dir cstep cinit cabs delete_prog publish_prog rolled publish_kinds sync_kinds kinds_ops head_base delete_full copy_file backup_files
  ninit nrun xrun xh_step ftab0 fstep open_dir b_open b_log_consume b_log_get b_log_get_by_key b_log_consume_by_key b_log_get_by_time.
