#!/bin/sh
# builds the extracted model executable; run from /verif/model
set -e
cd "$(dirname "$0")"
coqc -Q ../coq KV Extract.v >/dev/null
ocamlfind ocamlopt -O2 -w -a -package str kvmodel.mli kvmodel.ml driver.ml -o kvmodel 2>/dev/null || \
ocamlfind ocamlopt -w -a kvmodel.mli kvmodel.ml driver.ml -o kvmodel
