(* driver.ml — hand-written front end of the extracted model (parsing and
   printing only).  Mirrors the output format of harness/cmd/kvrun. *)
open Kvmodel

(* ---------- numbers *)

let rec pos_of_int (i : int) : positive =
  if i = 1 then XH
  else if i land 1 = 0 then XO (pos_of_int (i lsr 1))
  else XI (pos_of_int (i lsr 1))

let z_of_int (i : int) : z =
  if i = 0 then Z0 else if i > 0 then Zpos (pos_of_int i) else Zneg (pos_of_int (-i))

let ten = z_of_int 10

let z_of_string (s : string) : z =
  let neg = String.length s > 0 && s.[0] = '-' in
  let start = if neg then 1 else 0 in
  let n = String.length s - start in
  if n <= 17 then z_of_int (int_of_string s)
  else begin
    let acc = ref Z0 in
    for i = start to String.length s - 1 do
      acc := Z.add (Z.mul !acc ten) (z_of_int (Char.code s.[i] - 48))
    done;
    if neg then Z.sub Z0 !acc else !acc
  end

let rec pos_bits (p : positive) : int =
  match p with XH -> 1 | XO q -> 1 + pos_bits q | XI q -> 1 + pos_bits q

let rec int_of_pos (p : positive) : int =
  match p with XH -> 1 | XO q -> 2 * int_of_pos q | XI q -> 2 * int_of_pos q + 1

let rec string_of_pos_big (p : z) : string =
  (* p > 0 *)
  match p with
  | Z0 -> ""
  | _ ->
    let (q, r) = Z.div_eucl p ten in
    let d = (match r with Z0 -> 0 | Zpos x -> int_of_pos x | Zneg _ -> 0) in
    string_of_pos_big q ^ string_of_int d

let string_of_z (x : z) : string =
  match x with
  | Z0 -> "0"
  | Zpos p -> if pos_bits p <= 61 then string_of_int (int_of_pos p) else string_of_pos_big x
  | Zneg p -> if pos_bits p <= 61 then string_of_int (- (int_of_pos p))
              else "-" ^ string_of_pos_big (Zpos p)

let int_of_z (x : z) : int =
  match x with Z0 -> 0 | Zpos p -> int_of_pos p | Zneg p -> - (int_of_pos p)

let n_of_int (i : int) : n = if i = 0 then N0 else Npos (pos_of_int i)
let int_of_n (x : n) : int = match x with N0 -> 0 | Npos p -> int_of_pos p

(* ---------- bytes *)

let hexval c =
  match c with
  | '0'..'9' -> Char.code c - 48
  | 'a'..'f' -> Char.code c - 87
  | 'A'..'F' -> Char.code c - 55
  | _ -> failwith "bad hex"

let bytes_of_hex (s : string) : bytes =
  if s = "-" || s = "=" then []     (* "=": present but empty (a non-nil zero-length slice on the Go side) *)
  else begin
    let n = String.length s / 2 in
    let rec go i acc =
      if i < 0 then acc
      else go (i - 1) (n_of_int (hexval s.[2*i] * 16 + hexval s.[2*i+1]) :: acc) in
    go (n - 1) []
  end

let hex_of_bytes (b : bytes) : string =
  match b with
  | [] -> "-"
  | _ ->
    let buf = Buffer.create 16 in
    List.iter (fun x -> Buffer.add_string buf (Printf.sprintf "%02x" (int_of_n x))) b;
    Buffer.contents buf

(* ---------- printing *)

let fmt_msg (m : msg) : string =
  Printf.sprintf "%s|%s|%s|%s" (string_of_z m.moff) (string_of_z m.mtime)
    (hex_of_bytes m.mkey) (hex_of_bytes m.mval)

let fmt_msgs (ms : msg list) : string =
  String.concat "" (List.map (fun m -> " " ^ fmt_msg m) ms)

let class_name (e : ierr) : string =
  match classify e with
  | CNotFound -> "NotFound" | CInvalidOffset -> "InvalidOffset" | CNoIndex -> "NoIndex"
  | CReadonly -> "Readonly" | CLogCorrupted -> "LogCorrupted"
  | CIndexCorrupted -> "IndexCorrupted" | CNotExist -> "NotExist" | CTooBig -> "TooBig"
  | CLocked -> "Locked" | COther -> "Other" | CPanic -> "Panic"
  | COutOfFuel -> "OutOfFuel" | CClosed -> "Closed"

let err e = "err " ^ class_name e

let fmt_offsets (l : z list) : string =
  match l with
  | [] -> " -"
  | _ ->
    let l' = List.sort_uniq compare (List.map int_of_z l) in
    " " ^ String.concat "," (List.map string_of_int l')

let parse_msg (tok : string) : msg =
  match String.split_on_char '|' tok with
  | [t; k; v] -> { moff = z_of_int (-77); mtime = z_of_string t;
                   mkey = bytes_of_hex k; mval = bytes_of_hex v }
  | _ -> failwith ("bad msg " ^ tok)

let parse_offsets (tok : string) : z list =
  if tok = "-" || tok = "" then []
  else List.map z_of_string (String.split_on_char ',' tok)

let h = fnv64a

(* ---------- state *)

type st = {
  mutable s : lstate;
  mutable keys : bool;
  mutable times : bool;
  mutable cfg : cfg option;
  mutable backups : (string * seg list) list;
  mutable raw : ((z * bytes) * bytes option) list option;    (* directory image loaded as bytes, not yet opened *)
  mutable others : (string * int) list;                      (* files that are not segment files: name, size *)
}

let fresh () = { s = init_state; keys = false; times = false; cfg = None; backups = []; raw = None; others = [] }

let params_of st = { ptimes = st.times; pkeys = st.keys }

let parse_open (f : string array) : cfg =
  let b i = f.(i) = "1" in
  { cro = b 1; ckeys = b 2; ctimes = b 3; cautosync = b 4;
    crollover = z_of_string f.(5); ccheck = b 6; crecover = b 7;
    cnewver = (if f.(8) = "1" then V1 else V2); ckeeprw = b 9; ceager = b 10 }

let do_cons st off max =
  match log_consume h st.s off max with
  | Err e -> err e
  | Ok (s', (n, ms)) -> st.s <- s'; Printf.sprintf "ok %s%s" (string_of_z n) (fmt_msgs ms)

let do_consk st k off max =
  match log_consume_by_key h st.s k off max with
  | Err e -> err e
  | Ok (s', (n, ms)) -> st.s <- s'; Printf.sprintf "ok %s%s" (string_of_z n) (fmt_msgs ms)

let do_get st off =
  match log_get h st.s off with
  | Err e -> err e
  | Ok (s', m) -> st.s <- s'; "ok " ^ fmt_msg m

let do_getk st k =
  match log_get_by_key h st.s k with
  | Err e -> err e
  | Ok (s', m) -> st.s <- s'; "ok " ^ fmt_msg m

let do_gett st t =
  match log_get_by_time h st.s t with
  | Err e -> err e
  | Ok (s', m) -> st.s <- s'; "ok " ^ fmt_msg m

type 'a r2 = Good of 'a | Bad of ierr

let next_of st : z r2 =
  match log_next h st.s with
  | Err e -> Bad e
  | Ok (s', n) -> st.s <- s'; Good n

let split_commas s = String.split_on_char ',' s

let rec range lo hi = if lo > hi then [] else lo :: range (lo + 1) hi

let probe st (a : string list) : string list =
  (* kvrun's probe asks NextOffset before every kind of probe: on a read-only handle that loads (and may lazily
     rebuild) the index of the newest segment, a change of state the other kinds would otherwise miss *)
  (match a with ["scan"] | ["consk"; _; _] -> () | _ -> ignore (next_of st));
  match a with
  | ["scan"] ->
    (match next_of st with
     | Bad e -> ["next => " ^ err e]
     | Good next ->
       let res = ref [Printf.sprintf "next => ok %s" (string_of_z next)] in
       let off = ref offsetOldest in
       let continue = ref true in
       let iters = ref 0 in
       while !continue && !iters < int_of_z next + 4 do
         incr iters;
         (match log_consume h st.s !off (z_of_int 7) with
          | Err e ->
            res := Printf.sprintf "scan %s => %s" (string_of_z !off) (err e) :: !res;
            continue := false
          | Ok (s', (n, ms)) ->
            st.s <- s';
            res := Printf.sprintf "scan %s => ok %s%s" (string_of_z !off) (string_of_z n) (fmt_msgs ms) :: !res;
            if (Z.compare n next <> Lt && ms = []) || (Z.compare !off Z0 <> Lt && Z.compare n !off <> Gt)
            then continue := false
            else off := n)
       done;
       List.rev !res)
  | ["cons"; lo; hid; maxes] ->
    (match next_of st with
     | Bad _ -> []
     | Good next ->
       let nx = int_of_z next in
       List.concat_map (fun off ->
           List.map (fun ms ->
               Printf.sprintf "cons %d %s => %s" off ms (do_cons st (z_of_int off) (z_of_string ms)))
             (split_commas maxes))
         (range (int_of_string lo) (nx + int_of_string hid)))
  | ["get"; hid] ->
    (match next_of st with
     | Bad _ -> []
     | Good next ->
       let nx = int_of_z next in
       List.map (fun off -> Printf.sprintf "get %d => %s" off (do_get st (z_of_int off)))
         (range (-2) (nx + int_of_string hid)))
  | ["keys"; ks] ->
    List.map (fun k -> Printf.sprintf "getk %s => %s" k (do_getk st (bytes_of_hex k))) (split_commas ks)
  | ["consk"; maxes; ks] ->
    (match next_of st with
     | Bad _ -> []
     | Good next ->
       let nx = int_of_z next in
       List.concat_map (fun k ->
           List.concat_map (fun off ->
               List.map (fun ms ->
                   Printf.sprintf "consk %s %d %s => %s" k off ms
                     (do_consk st (bytes_of_hex k) (z_of_int off) (z_of_string ms)))
                 (split_commas maxes))
             (range (-2) (nx + 1)))
         (split_commas ks))
  | ["times"; lo; hi] ->
    List.map (fun t -> Printf.sprintf "gett %d => %s" t (do_gett st (z_of_int t)))
      (range (int_of_string lo) (int_of_string hi))
  | _ -> []

(* format of the segment holding each message before the delete (mirror of kvrun versOf) *)
let vers_of (segs0 : seg list) (ms : msg list) : string =
  match ms with
  | [] -> "v=-"
  | _ ->
    "v=" ^ String.concat "" (List.map (fun m ->
        let v = List.fold_left (fun acc sg ->
            if Z.leb sg.sbase m.moff
            then (if sg.sver = V2 && not (sg.srecs = [] && false) then "2" else if sg.srecs = [] then "1" else "1")
            else acc) "?" segs0 in v) ms)

(* mirror of kvrun newHeadVer: "^v" - the format of an empty head segment the Delete created ("" when it created none) *)
let new_head_ver (segs0 : seg list) (segs1 : seg list) : string =
  match List.rev segs1 with
  | hd :: _ when hd.srecs = [] && not (List.exists (fun s -> Z.eqb s.sbase hd.sbase) segs0) ->
    if hd.sver = V2 then "^2" else "^1"
  | _ -> ""

(* mirror of kvrun rewrittenVer: format of the segment holding the survivors of the segment a Delete rewrote *)
let rewritten_ver (segs0 : seg list) (segs1 : seg list) (ms : msg list) : string =
  match ms with
  | [] -> ""
  | m0 :: _ ->
    let lo = List.fold_left (fun acc m -> if Z.ltb m.moff acc then m.moff else acc) m0.moff ms in
    let big = z_of_string "4611686018427387904" in
    let rec find l (src, upper) = match l with
      | [] -> (src, upper)
      | s :: r -> if Z.leb s.sbase lo
        then find r (Some s.sbase, (match r with n :: _ -> n.sbase | [] -> big))
        else (src, upper) in
    (match find segs0 (None, big) with
     | (None, _) -> ">?"
     | (Some src, upper) ->
       (match List.filter (fun s -> Z.leb src s.sbase && Z.ltb s.sbase upper && s.srecs <> []) segs1 with
        | s :: _ -> if s.sver = V2 then ">2" else ">1"
        | [] -> ">-"))

let fmt_trim segs0 (r : ((lstate * msg list) * z) * ierr option) st : string =
  let (((s', ms), sz), eo) = r in
  st.s <- s';
  match eo with
  | None -> Printf.sprintf "ok %s %s%s" (string_of_z sz) (vers_of segs0 ms) (fmt_msgs ms)
  | Some e -> Printf.sprintf "err %s %s %s%s" (class_name e) (string_of_z sz) (vers_of segs0 ms) (fmt_msgs ms)

let find_fn name a : lstate -> (lstate * z list) res =
  match name with
  | "findo" | "trimo" | "trim1o" -> (fun s -> find_by_offset h s a)
  | "findc" | "trimc" | "trim1c" -> (fun s -> find_by_count h s a)
  | "finds" | "trims" | "trim1s" -> (fun s -> find_by_size h s a)
  | "finda" | "trima" | "trim1a" -> (fun s -> find_by_age h s a)
  | "fupd" | "cupd" | "c1upd" -> (fun s -> find_updates h s a)
  | "fdel" | "cdel" | "c1del" -> (fun s -> find_deletes h s a)
  | _ -> failwith "find_fn"

(* the helper calls as steps of XHistory.v (the functions the extended history theorem is about) *)
let xop_of name a : xop =
  match name with
  | "trimo" -> XTrimByOffset a | "trimc" -> XTrimByCount a | "trims" -> XTrimBySize a | "trima" -> XTrimByAge a
  | "cupd" -> XCompactUpdates a | "cdel" -> XCompactDeletes a
  | _ -> failwith "xop_of"

let xdel_of (r : lstate * xout) : ((lstate * msg list) * z) * ierr option =
  match r with
  | (s', XDel (ms, sz, eo)) -> (((s', ms), sz), eo)
  | (s', _) -> (((s', []), Z0), None)

let rec nat_of_int0 i = if i <= 0 then O else S (nat_of_int0 (i - 1))

let far_time = z_of_string "4000000000000000000"

let observe_dir st (l : seg list) (ro : bool) : string list =
  (* mirror of kvrun observeDir *)
  let p = params_of st in
  let res = ref [] in
  List.iter (fun sg ->
      match segment_check h p sg with
      | Err e -> res := Printf.sprintf "check %s => %s" (string_of_z sg.sbase) (err e) :: !res
      | Ok () -> ()) l;
  let c0 = (match st.cfg with Some c -> c | None -> failwith "no cfg") in
  let c = { c0 with cro = ro; ccheck = false; crecover = false; ceager = false } in
  let base = { segs = l; wcarry = Z0; opened = None; lvirt = false } in
  (match log_open h base c with
   | Err e -> res := ("open => " ^ err e) :: !res
   | Ok s' ->
     let sub = { s = s'; keys = st.keys; times = st.times; cfg = Some c; backups = []; raw = None; others = [] } in
     res := List.rev_append (probe sub ["scan"]) !res;
     res := List.rev_append (probe sub ["get"; "1"]) !res;
     (match log_stat h sub.s with
      | Err e -> res := ("stat => " ^ err e) :: !res
      | Ok (_, ((a, b), c)) ->
        res := Printf.sprintf "stat => ok %s %s %s" (string_of_z a) (string_of_z b) (string_of_z c) :: !res));
  List.rev !res

(* Backup of the current directory state into a named target *)
let run_backup st (name : string) : string =
  (* F4 repair applies: the lazy index rebuild runs before the copy *)
  let src_state =
    match st.s.opened with
    | Some _ -> (match log_stat h st.s with Ok (s', _) -> st.s <- s'; Good () | Err e -> Bad e)
    | None -> Good () in
  match src_state with
  | Bad e -> err e
  | Good () ->
    let src = if st.s.lvirt then [] else st.s.segs in
    let old = (try List.assoc name st.backups with Not_found -> []) in
    (* Backup.do_backup (extracted): needs both files of every segment; merges by file name *)
    (match Kvmodel.do_backup old src with
     | Err e -> err e
     | Ok merged ->
       st.backups <- (name, merged) :: List.remove_assoc name st.backups;
       "ok")

let fmt_files (l : seg list) (p : params) : string =
  String.concat "" (List.map (fun sg ->
      let b = string_of_z sg.sbase in
      let vs v flags = (match v with V1 -> ":v1" | V2 -> Printf.sprintf ":v2:%d" flags) in
      let iflags = (if p.ptimes then 1 else 0) + (if p.pkeys then 2 else 0) in
      let idx = (match sg.sidx with
          | None -> ""
          | Some ix -> Printf.sprintf " %s.index:%s%s" b (string_of_z (idx_size p ix)) (vs (fst ix) iflags)) in
      (* directory order: index sorts before log *)
      Printf.sprintf "%s %s.log:%s%s" idx b (string_of_z (seg_log_size sg))
        (if sg.sver = V1 && sg.srecs = [] then ":v1" else vs sg.sver 0)) l)

let step st (f : string array) : string list =
  let a i = f.(i) in
  match a 0 with
  | "open" ->
    let c = parse_open f in
    st.keys <- c.ckeys; st.times <- c.ctimes;
    (match st.raw with
     | Some files ->
       (match open_dir crc32c h c files with
        | Err e -> [err e]
        | Ok s' ->
          st.s <- s'; st.cfg <- Some c; st.raw <- None;
          (* a successful Recover leaves no .recover file of the head behind *)
          if c.crecover && not c.cro then
            st.others <- List.filter (fun (n, _) -> not (Filename.check_suffix n ".log.recover")) st.others;
          ["ok"])
     | None ->
       (match log_open h st.s c with
        | Err e -> [err e]
        | Ok s' -> st.s <- s'; st.cfg <- Some c; ["ok"]))
  | "close" ->
    (match log_close st.s with
     | Err e -> [err e]
     | Ok s' -> st.s <- s'; ["ok"])
  | "pub" ->
    let ms = List.map parse_msg (List.tl (Array.to_list f)) in
    (match log_next h st.s with
     | Err e -> [err e]
     | Ok (_, before) ->
       (match log_publish h st.s ms with
        | Err e -> [err e]
        | Ok (s', n) ->
          st.s <- s';
          let offs = List.mapi (fun i _ -> " " ^ string_of_z (Z.add before (z_of_int i))) ms in
          [Printf.sprintf "ok %s%s" (string_of_z n) (String.concat "" offs)]))
  | "pubbig" ->
    (* a batch with a message above the 64 MiB guard, represented by its size only: Model.log_publish answers
       ETooBig (after Readonly / Closed) before anything is written *)
    (match st.s.opened with
     | None -> [err EClosed]
     | Some c -> if c.cro then [err EReadonly] else begin
         (* History.pub_step: the rollover, when due, has happened before the batch is refused *)
         st.s <- rolled h st.s; [err ETooBig] end)
  | "next" | "sync" ->
    (match next_of st with
     | Bad e -> [err e]
     | Good n -> ["ok " ^ string_of_z n])
  | "gc" -> (match get_cfg st.s with Err e -> [err e] | Ok _ -> ["ok"])
  | "stat" ->
    (match log_stat h st.s with
     | Err e -> [err e]
     | Ok (s', ((x, y), z)) ->
       st.s <- s';
       [Printf.sprintf "ok %s %s %s" (string_of_z x) (string_of_z y) (string_of_z z)])
  | "cons" -> [do_cons st (z_of_string (a 1)) (z_of_string (a 2))]
  | "consk" -> [do_consk st (bytes_of_hex (a 1)) (z_of_string (a 2)) (z_of_string (a 3))]
  | "get" -> [do_get st (z_of_string (a 1))]
  | "getk" -> [do_getk st (bytes_of_hex (a 1))]
  | "gett" -> [do_gett st (z_of_string (a 1))]
  | "offk" ->
    (match log_offset_by_key h st.s (bytes_of_hex (a 1)) with
     | Err e -> [err e]
     | Ok (s', o) -> st.s <- s'; ["ok " ^ string_of_z o])
  | "offt" ->
    (match log_offset_by_time h st.s (z_of_string (a 1)) with
     | Err e -> [err e]
     | Ok (s', (o, t)) -> st.s <- s'; [Printf.sprintf "ok %s %s" (string_of_z o) (string_of_z t)])
  | "del" ->
    let segs0 = st.s.segs in
    (match log_delete h st.s (parse_offsets (a 1)) with
     | Err e -> [err e]
     | Ok (s', (ms, sz)) -> st.s <- s'; [Printf.sprintf "ok %s %s%s%s%s" (string_of_z sz) (vers_of segs0 ms) (rewritten_ver segs0 s'.segs ms) (new_head_ver segs0 s'.segs) (fmt_msgs ms)])
  | "delm" ->
    (match get_cfg st.s with
     | Err e -> [err e]
     | Ok _ -> [fmt_trim st.s.segs (xdel_of (xh_step h st.s (XDeleteMulti (parse_offsets (a 1))))) st])
  | "delmb" | "trimob" ->
    (match get_cfg st.s with
     | Err e -> [err e]
     | Ok _ ->
       let bk = nat_of_int0 (int_of_string (a 1)) in
       let op = (if a 0 = "delmb" then XDeleteMultiBackoff (bk, parse_offsets (a 2))
                 else XTrimByOffsetBackoff (bk, z_of_string (a 2))) in
       [fmt_trim st.s.segs (xdel_of (xh_step h st.s op)) st])
  | "size" ->
    (match get_cfg st.s with
     | Err e -> [err e]
     | Ok c -> ["ok " ^ string_of_z (log_msg_size c (parse_msg (a 1)))])
  | "findo" | "findc" | "finds" | "finda" | "fupd" | "fdel" ->
    (match find_fn (a 0) (z_of_string (a 1)) st.s with
     | Err e -> [err e]
     | Ok (s', offs) -> st.s <- s'; ["ok" ^ fmt_offsets offs])
  | "trimo" | "trimc" | "trims" | "trima" | "cupd" | "cdel" ->
    (match get_cfg st.s with
     | Err e -> [err e]
     | Ok _ -> [fmt_trim st.s.segs (xdel_of (xh_step h st.s (xop_of (a 0) (z_of_string (a 1))))) st])
  | "compact" ->
    (* compact.go Compact with both cut-offs later than every message: the step XCompact of XHistory.v *)
    let segs0 = st.s.segs in
    (match get_cfg st.s with
     | Err e -> [err e]
     | Ok _ ->
       let (((s', ms), _), eo) = xdel_of (xh_step h st.s (XCompact (far_time, far_time))) in
       st.s <- s';
       (* the implementation reports nothing: the harness reads the removed messages off two scans, in offset order *)
       let ms = List.sort (fun x y -> match Z.compare x.moff y.moff with Lt -> -1 | Eq -> 0 | Gt -> 1) ms in
       (match eo with
        | None -> [Printf.sprintf "ok - %s%s" (vers_of segs0 ms) (fmt_msgs ms)]
        | Some e -> [err e]))
  | "trim1o" | "trim1c" | "trim1s" | "trim1a" | "c1upd" | "c1del" ->
    let segs0 = st.s.segs in
    (match find_fn (a 0) (z_of_string (a 1)) st.s with
     | Err e -> [err e]
     | Ok (s', offs) ->
       st.s <- s';
       (match log_delete h st.s offs with
        | Err e -> [err e]
        | Ok (s'', (ms, sz)) -> st.s <- s''; [Printf.sprintf "ok %s %s%s" (string_of_z sz) (vers_of segs0 ms) (fmt_msgs ms)]))
  | "rmindex" ->
    let all = (a 1 = "all") in
    let which = if all then [] else parse_offsets (a 1) in
    st.s <- set_segs st.s (rm_index_at st.s.segs Z0 which all);
    ["ok"]
  | "idxcut" ->
    (* the newest index file loses its last k items *)
    let k = int_of_string (a 1) in
    let rec cut_last = function
      | [] -> []
      | [s] -> [ (match s.sidx with
          | Some (iv, items) ->
            let n = List.length items in
            let keep = max 0 (n - k) in
            set_idx s (Some (iv, List.filteri (fun i _ -> i < keep) items))
          | None -> s) ]
      | s :: r -> s :: cut_last r in
    st.s <- set_segs st.s (cut_last st.s.segs);
    ["ok"]
  | "migrate" ->
    (match dir_migrate h (params_of st) (if a 1 = "1" then V1 else V2) st.s with
     | Err e -> [err e]
     | Ok s' -> st.s <- s'; ["ok"])
  | "checkdir" ->
    (match dir_check h (params_of st) st.s with Err e -> [err e] | Ok () -> ["ok"])
  | "checkall" ->
    (* report the first failing segment like kvrun *)
    let rec go l = (match l with
        | [] -> "ok"
        | sg :: r -> (match segment_check h (params_of st) sg with
            | Err e -> Printf.sprintf "err %s seg=%s" (class_name e) (string_of_z sg.sbase)
            | Ok () -> go r)) in
    [go st.s.segs]
  | "recoverdir" ->
    (match dir_recover h (params_of st) st.s with
     | Err e -> [err e]
     | Ok s' -> st.s <- s'; ["ok"])
  | "statdir" ->
    (match dir_stat (params_of st) st.s with
     | Err e -> [err e]
     | Ok ((x, y), z) -> [Printf.sprintf "ok %s %s %s" (string_of_z x) (string_of_z y) (string_of_z z)])
  | "files" ->
    let p = params_of st in
    let pad z = Printf.sprintf "%020d" (int_of_z z) in
    let short n = (let t = ref n in
                   while String.length !t > 1 && !t.[0] = '0' && !t.[1] <> '.' do t := String.sub !t 1 (String.length !t - 1) done;
                   if String.length !t > 0 && !t.[0] = '0' && String.length !t > 1 && !t.[1] = '.' then !t else !t) in
    let vs v flags = (match v with V1 -> ":v1" | V2 -> Printf.sprintf ":v2:%d" flags) in
    let iflags = (if p.ptimes then 1 else 0) + (if p.pkeys then 2 else 0) in
    let entries = List.concat_map (fun sg ->
        let b = pad sg.sbase in
        (match sg.sidx with
         | None -> []
         | Some ix -> [(b ^ ".index", Printf.sprintf "%s:%s%s" (short (b ^ ".index")) (string_of_z (idx_size p ix)) (vs (fst ix) iflags))])
        @ [(b ^ ".log", Printf.sprintf "%s:%s%s" (short (b ^ ".log")) (string_of_z (seg_log_size sg))
              (if sg.sver = V1 && sg.srecs = [] then ":v1" else vs sg.sver 0))])
        (if st.s.lvirt then [] else st.s.segs) in
    (* index.Write removes a stale <index>.tmp when it (re)builds that index *)
    let rebuilt n =
      Filename.check_suffix n ".index.tmp" &&
      List.exists (fun sg -> pad sg.sbase ^ ".index.tmp" = n &&
                             (match sg.sidx with Some (_, _ :: _) -> true | _ -> false))
        (if st.s.lvirt then [] else st.s.segs) in
    st.others <- List.filter (fun (n, _) -> not (rebuilt n)) st.others;
    let oth = List.map (fun (n, sz) -> (n, Printf.sprintf "%s:%d" (short n) sz)) st.others in
    let all = List.sort (fun (a, _) (b, _) -> compare a b) (entries @ oth) in
    ["ok" ^ String.concat "" (List.map (fun (_, d) -> " " ^ d) all)]
  | "disksize" ->
    let p = params_of st in
    let total = List.fold_left (fun acc sg ->
        acc + int_of_z (seg_log_size sg)
        + (match sg.sidx with None -> 0 | Some ix -> int_of_z (idx_size p ix)))
        0 (if st.s.lvirt then [] else st.s.segs) in
    ["ok " ^ string_of_int total]
  | "backup" | "backupdir" -> [run_backup st (a 1)]
  | "bkobs" ->
    let l = (try List.assoc (a 1) st.backups with Not_found -> []) in
    observe_dir st l (a 2 = "1")
  | "bkhalf" ->
    (* an interrupted Backup: log files copied, index files not yet.  The directory is not looked at before the Backup
       that follows, whose result does not depend on what it finds under the names of the source's segments *)
    (match get_cfg st.s with Err e -> [err e] | Ok _ -> ["ok"])
  | "bkclean" -> st.backups <- List.remove_assoc (a 1) st.backups; ["ok"]
  | "probe" -> probe st (List.tl (Array.to_list f))
  | "loaddir" ->
    (* name:hex pairs; segment files are <digits>.log / <digits>.index *)
    let files = List.map (fun t ->
        match String.index_opt t ':' with
        | Some i -> (String.sub t 0 i, String.sub t (i + 1) (String.length t - i - 1))
        | None -> failwith "loaddir token") (List.tl (Array.to_list f)) in
    let is_digits s = s <> "" && String.for_all (fun ch -> ch >= '0' && ch <= '9') s in
    let segname n suffix =
      if Filename.check_suffix n suffix then
        (let b = Filename.chop_suffix n suffix in if is_digits b then Some b else None)
      else None in
    let logs = List.filter_map (fun (n, hx) ->
        match segname n ".log" with Some b -> Some (b, hx) | None -> None) files in
    let idxs = List.filter_map (fun (n, hx) ->
        match segname n ".index" with Some b -> Some (b, hx) | None -> None) files in
    let logs = List.sort (fun (a, _) (b, _) -> compare a b) logs in
    let raw = List.map (fun (b, hx) ->
        ((z_of_string (string_of_int (int_of_string b)), bytes_of_hex hx),
         (match List.assoc_opt b idxs with Some ih -> Some (bytes_of_hex ih) | None -> None))) logs in
    st.raw <- Some raw;
    st.others <- List.filter_map (fun (n, hx) ->
        if segname n ".log" <> None then None
        else if (match segname n ".index" with Some b -> List.mem_assoc b logs | None -> false) then None
        else Some (n, (if hx = "-" then 0 else String.length hx / 2))) files;
    st.s <- init_state;
    ["ok"]
  | "setlog" -> ["ok"]
  | "sleepms" -> ["ok"]
  | _ -> ["err UnknownOp"]

let run_hist (path : string) =
  let ic = open_in path in
  let st = ref (fresh ()) in
  (try
     while true do
       let line = String.trim (input_line ic) in
       if line = "" || line.[0] = '#' then ()
       else begin
         let f = Array.of_list (List.filter (fun s -> s <> "") (String.split_on_char ' ' line)) in
         if f.(0) = "case" then begin
           st := fresh ();
           print_endline line
         end else begin
           (* a symbolic size target "S<k>d<d>": the Stat size minus Size(m) of the first k live messages, plus d *)
           let sym = (f.(0) = "finds" || f.(0) = "trims") && Array.length f > 1 && String.length f.(1) > 0 && f.(1).[0] = 'S' in
           let target = (if not sym then None else
               match get_cfg !st.s, log_stat h !st.s with
               | Ok c, Ok (s', ((_, _), size)) ->
                 !st.s <- s';
                 let body = String.sub f.(1) 1 (String.length f.(1) - 1) in
                 (match String.index_opt body 'd' with
                  | Some i ->
                    let k = int_of_string (String.sub body 0 i) and d = int_of_string (String.sub body (i + 1) (String.length body - i - 1)) in
                    let live = List.concat (List.map (fun sg -> sg.srecs) !st.s.segs) in
                    let rec take n l acc = (match l with m :: r when n > 0 -> take (n - 1) r (Z.add acc (log_msg_size c m)) | _ -> acc) in
                    Some (Z.add (Z.sub size (take k live Z0)) (z_of_int d))
                  | None -> None)
               | _, _ -> None) in
           (match target with Some t -> f.(1) <- string_of_z t | None -> ());
           print_endline (if sym then f.(0) ^ " " ^ f.(1) else line);
           (match target with Some t -> print_endline ("= target " ^ string_of_z t) | None -> ());
           let res = (try step !st f with
               | Stack_overflow -> ["err ModelStackOverflow"]
               | Failure m -> ["err ModelFailure " ^ m]) in
           List.iter (fun r -> print_string "= "; print_endline r) res
         end
       end
     done
   with End_of_file -> ());
  close_in ic


(* ====================================================================
   check mode: evaluate the L0 property checkers (extracted from Spec.v)
   on the IMPLEMENTATION's output.  The abstract state is driven only by
   what the implementation itself reported (publish results, reported
   deletes). *)

let parse_full_msg (tok : string) : msg =
  match String.split_on_char '|' tok with
  | [o; t; k; v] -> { moff = z_of_string o; mtime = z_of_string t;
                      mkey = bytes_of_hex k; mval = bytes_of_hex v }
  | _ -> failwith ("bad full msg " ^ tok)

let eclass_of_string (s : string) : eclass =
  match s with
  | "NotFound" -> CNotFound | "InvalidOffset" -> CInvalidOffset | "NoIndex" -> CNoIndex
  | "Readonly" -> CReadonly | "LogCorrupted" -> CLogCorrupted
  | "IndexCorrupted" -> CIndexCorrupted | "NotExist" -> CNotExist | "TooBig" -> CTooBig
  | "Locked" -> CLocked | "Panic" -> CPanic | "Closed" -> CClosed | _ -> COther

type cst = {
  mutable a : alog;
  mutable ckeys_ : bool;
  mutable ctimes_ : bool;
  mutable cro_ : bool;
  mutable copen : bool;
  mutable cnewv : ver;
  mutable ckeepv : bool;
  mutable v1ok : bool;
  mutable v2ok : bool;
  mutable mono_hist : bool;
  mutable neg_time : bool;
  mutable last_pub_time : z option;
  mutable last_stat_size : z option;      (* Stat size, valid until the next mutation *)
  mutable size_bound : z option;          (* pending C15 post-condition of trims *)
  mutable cons1 : (int * (z * msg list) obs) list;   (* Consume(off,1) seen in this state *)
  mutable gets : (int * msg obs) list;
  mutable bk : (string * alog) list;      (* abstract state at the time of each backup *)
  mutable tainted : bool;                 (* a failed mutation or crash op: state unknown *)
  mutable migrated : string option;
  mutable files_after_migrate : (string * string list) option;
}

let cfresh () = { a = empty_log; ckeys_ = false; ctimes_ = false; cro_ = false; copen = false;
                  cnewv = V2; ckeepv = false; v1ok = false; v2ok = false; mono_hist = true; neg_time = false;
                  last_pub_time = None; last_stat_size = None; size_bound = None;
                  cons1 = []; gets = []; bk = []; tainted = false; migrated = None; files_after_migrate = None }

let toks (s : string) : string list = List.filter (fun x -> x <> "") (String.split_on_char ' ' s)

let obs_of (r : string list) (f : string list -> 'a) : 'a obs =
  match r with
  | "ok" :: rest -> OOk (f rest)
  | "err" :: c :: _ -> OErr (eclass_of_string c)
  | _ -> OErr COther

let p_consume rest = match rest with
  | n :: ms -> (z_of_string n, List.map parse_full_msg ms)
  | [] -> failwith "consume result"
let p_msg rest = match rest with m :: _ -> parse_full_msg m | [] -> failwith "msg result"
let parse_vers (tok : string) : ver list =
  (* "v=1221" or "v=-" *)
  let body = String.sub tok 2 (String.length tok - 2) in
  let body = (match String.index_opt body '>' with Some i -> String.sub body 0 i | None -> body) in
  if body = "-" then []
  else List.init (String.length body) (fun i -> if body.[i] = '1' then V1 else V2)
let p_del rest = match rest with
  | sz :: vs :: ms -> ((z_of_string sz, parse_vers vs), List.map parse_full_msg ms)
  | _ -> failwith "del result"
let p_offs rest = match rest with o :: _ -> parse_offsets o | [] -> []

let mutated cs = cs.cons1 <- []; cs.gets <- []; cs.last_stat_size <- None

let run_check (path : string) =
  let ic = open_in path in
  let cs = ref (cfresh ()) in
  let case = ref "" in
  let lineno = ref 0 in
  let cur_op : string list ref = ref [] in
  let cur_line = ref 0 in
  let scan_acc : msg list ref = ref [] in
  let scan_final : z option ref = ref None in
  let in_scan = ref false in
  let scan_alog : alog option ref = ref None in
  let scan_prop = ref "C01" in
  let nfail = ref 0 in
  let nchecked = ref 0 in
  let fail prop clause got =
    incr nfail;
    Printf.printf "PFAIL case=%s line=%d prop=%s clause=%s op=%s got=%s\n" !case !cur_line prop clause
      (String.concat "_" !cur_op) (String.concat "_" got) in
  let chk prop clause b got = incr nchecked; if not b then fail prop clause got in
  let isz () = item_size { ptimes = !cs.ctimes_; pkeys = !cs.ckeys_ } in
  let finish_scan () =
    if !in_scan then begin
      in_scan := false;
      (match !scan_final with
       | Some n when not !cs.tainted ->
         let al = (match !scan_alog with Some x -> x | None -> !cs.a) in
         chk !scan_prop "scan_equals_live" (check_scan al !scan_acc n) ["scan"]
       | _ -> ())
    end in
  (* evaluate one sub-query (also used for probe lines) *)
  let eval_query (op : string list) (r : string list) =
    let c = !cs in
    if c.tainted then () else
    match op with
    | ["cons"; off; max] ->
      let o = obs_of r p_consume in
      let offz = z_of_string off and maxz = z_of_string max in
      if int_of_string max >= 1 then
        chk "C03" "consume" (check_consume c.a offz maxz o) r;
      if max = "1" then begin
        c.cons1 <- (int_of_string off, o) :: c.cons1;
        (match List.assoc_opt (int_of_string off) c.gets with
         | Some g -> chk "C04" "get_agrees_consume" (check_get_consume_agree offz g o) r
         | None -> ())
      end
    | ["scan"; off] ->
      let o = obs_of r p_consume in
      chk "C03" "consume_scan" (check_consume c.a (z_of_string off) (z_of_int 7) o) r;
      (match o with
       | OOk (n, ms) -> scan_acc := !scan_acc @ ms; scan_final := Some n
       | OErr _ ->
         (* reading the log from the oldest offset to the end must succeed on an open handle *)
         scan_final := None; chk !scan_prop "scan_ok" false r)
    | ["next"] | ["sync"] ->
      chk "C02" "next_offset" (check_next c.a (obs_of r (fun l -> z_of_string (List.hd l)))) r
    | ["get"; off] ->
      let o = obs_of r p_msg in
      let offz = z_of_string off in
      chk "C04" "get" (check_get c.a offz o) r;
      c.gets <- (int_of_string off, o) :: c.gets;
      (match List.assoc_opt (int_of_string off) c.cons1 with
       | Some co -> chk "C04" "get_agrees_consume" (check_get_consume_agree offz o co) r
       | None -> ())
    | ["getk"; k] ->
      chk "C09" "get_by_key" (check_get_by_key c.a c.ckeys_ (bytes_of_hex k) (obs_of r p_msg)) r
    | ["offk"; k] ->
      let o = (match r with
          | "ok" :: off :: _ ->
            (match List.find_opt (fun m -> m.moff = z_of_string off) c.a.live with
             | Some m -> OOk m
             | None -> OOk { moff = z_of_string off; mtime = Z0; mkey = [z_of_int 0 |> fun _ -> N0]; mval = [] })
          | _ -> obs_of r p_msg) in
      chk "C09" "offset_by_key" (check_get_by_key c.a c.ckeys_ (bytes_of_hex k) o) r
    | ["consk"; k; off; max] ->
      chk "C09" "consume_by_key"
        (check_consume_by_key c.a c.ckeys_ (bytes_of_hex k) (z_of_string off) (z_of_string max)
           (obs_of r p_consume)) r
    | ["gett"; t] ->
      if c.mono_hist && not c.neg_time then
        chk "C10" "get_by_time" (check_get_by_time c.a c.ctimes_ (z_of_string t) (obs_of r p_msg)) r
      else if not c.ctimes_ then
        chk "C10" "no_index" (check_get_by_time c.a false (z_of_string t) (obs_of r p_msg)) r
      else if c.mono_hist && c.neg_time then begin
        (* pre-1970 times: evaluated, reported under its own clause (known finding F11) *)
        let ok = check_get_by_time c.a c.ctimes_ (z_of_string t) (obs_of r p_msg) in
        chk "C10" "get_by_time_negative_times" ok r
      end
    | ["offt"; t] ->
      if c.mono_hist && not c.neg_time then begin
        let o = (match r with
            | "ok" :: off :: tm :: _ ->
              (match List.find_opt (fun m -> m.moff = z_of_string off) c.a.live with
               | Some m when m.mtime = z_of_string tm -> OOk m
               | _ -> OOk { moff = z_of_string off; mtime = z_of_string tm; mkey = [N0]; mval = [N0] })
            | _ -> obs_of r p_msg) in
        chk "C10" "offset_by_time" (check_get_by_time c.a c.ctimes_ (z_of_string t) o) r
      end
    | ["stat"] ->
      (match r with
       | "ok" :: _ :: cnt :: sz :: _ ->
         chk "C13" "stat_count" (check_stat_count c.a (z_of_string cnt)) r;
         c.last_stat_size <- Some (z_of_string sz);
         (match c.size_bound with
          | Some b ->
            chk "C15" "size_bound_after_trim" (Z.ltb (z_of_string sz) b || c.a.live = []) r;
            c.size_bound <- None
          | None -> ())
       | _ -> if c.copen then chk "C13" "stat_ok" false r)
    | ["disksize"] ->
      (match r, c.last_stat_size with
       | "ok" :: sz :: _, Some st -> chk "C13" "stat_size_equals_files" (Z.eqb (z_of_string sz) st) r
       | _ -> ())
    | ["size"; m] ->
      (match r with
       | "ok" :: sz :: _ ->
         chk "C13" "size_of_message"
           (Z.eqb (z_of_string sz) (Z.add (rec_size c.cnewv (parse_msg m)) (isz ()))) r
       | _ -> chk "C13" "size_ok" false r)
    | ["findo"; b] ->
      (match r with
       | "ok" :: _ -> chk "C15" "find_by_offset" (check_find_by_offset c.a (z_of_string b) (p_offs (List.tl r))) r
       | _ -> chk "C15" "find_by_offset_ok" false r)
    | ["findc"; n] ->
      (match r with
       | "ok" :: _ -> chk "C15" "find_by_count" (check_find_by_count c.a (z_of_string n) (p_offs (List.tl r))) r
       | _ -> chk "C15" "find_by_count_ok" false r)
    | ["finds"; sz] ->
      (match r, c.last_stat_size with
       | "ok" :: _, Some total ->
         let msz m = Z.add (rec_size c.cnewv m) (isz ()) in
         chk "C15" "find_by_size" (check_find_by_size c.a msz total (z_of_string sz) (p_offs (List.tl r))) r
       | "ok" :: _, None -> ()
       | _ -> chk "C15" "find_by_size_ok" false r)
    | ["finda"; t] ->
      (match r with
       | "ok" :: _ -> chk "C15" "find_by_age" (check_find_by_age c.a (z_of_string t) (p_offs (List.tl r))) r
       | _ -> chk "C15" "find_by_age_ok" (c.a.live = []) r)   (* an empty log may report an error (C10) *)
    | ["fupd"; t] ->
      (match r with
       | "ok" :: _ -> chk "C16" "find_updates" (check_find_updates c.a (z_of_string t) (p_offs (List.tl r))) r
       | _ -> chk "C16" "find_updates_ok" false r)
    | ["fdel"; t] ->
      (match r with
       | "ok" :: _ -> chk "C16" "find_deletes" (check_find_deletes c.a (z_of_string t) (p_offs (List.tl r))) r
       | _ -> chk "C16" "find_deletes_ok" false r)
    | _ -> () in
  let apply_deleted prop (ms : msg list) r =
    let c = !cs in
    let before = c.a.live in
    chk prop "deleted_were_live" (List.for_all (fun m -> List.exists (fun x -> x = m) before) ms) r;
    c.a <- spec_delete c.a ms;
    mutated c;
    before in
  let handle_result (r : string list) =
    let c = !cs in
    match !cur_op with
    | _ when (match r with "target" :: _ -> true | _ -> false) -> ()    (* the resolved symbolic size target *)
    | "probe" :: _ ->
      (* "<subop> => <result>" *)
      let rec split acc l = (match l with
          | "=>" :: rest -> (List.rev acc, rest)
          | x :: rest -> split (x :: acc) rest
          | [] -> (List.rev acc, [])) in
      let (sub, res) = split [] r in
      eval_query sub res
    | "open" :: f ->
      let fa = Array.of_list ("open" :: f) in
      let cfg = parse_open fa in
      (match r with
       | "ok" :: _ ->
         c.copen <- true; c.ckeys_ <- cfg.ckeys; c.ctimes_ <- cfg.ctimes; c.cro_ <- cfg.cro;
         c.cnewv <- cfg.cnewver; c.ckeepv <- cfg.ckeeprw;
         if not cfg.cro then (match cfg.cnewver with V1 -> c.v1ok <- true | V2 -> c.v2ok <- true);
         c.files_after_migrate <- None; c.migrated <- None;
         mutated c
       | _ -> ())
    | ["close"] ->
      if c.cro_ then chk "C19" "readonly_handle_changes_no_log_file" (r <> ["err"; "ReadonlyHandleChangedLogFiles"]) r;
      c.copen <- false; mutated c
    | "pub" :: ms ->
      let msgs = List.map parse_msg ms in
      if c.cro_ then chk "C19" "readonly_rejects_publish" (r = ["err"; "Readonly"]) r
      else begin
        let o = obs_of r (fun l -> match l with
            | n :: offs -> (z_of_string n, List.map z_of_string offs)
            | [] -> failwith "pub result") in
        if not c.tainted then chk "C02" "publish_offsets" (check_publish c.a msgs o) r;
        (match o with
         | OOk _ ->
           c.a <- spec_publish c.a msgs;
           List.iter (fun m ->
               (match c.last_pub_time with
                | Some t when Z.ltb m.mtime t -> c.mono_hist <- false
                | _ -> ());
               if Z.ltb m.mtime Z0 then c.neg_time <- true;
               c.last_pub_time <- Some m.mtime) msgs;
           mutated c
         | OErr _ -> mutated c)
      end
    | ["pubbig"; _] ->
      (* a failed Publish publishes nothing: the abstract log is unchanged (checked by the scans that follow) *)
      if c.cro_ then chk "C19" "readonly_rejects_publish" (r = ["err"; "Readonly"]) r
      else (if not c.tainted then chk "C01" "oversized_batch_rejected" (r = ["err"; "TooBig"]) r; mutated c)
    | ["del"; offs] ->
      if c.cro_ then chk "C19" "readonly_rejects_delete" (r = ["err"; "Readonly"]) r
      else begin
        let o = obs_of r p_del in
        if not c.tainted then
          chk "C12" "delete" (check_delete c.a (isz ()) (parse_offsets offs) o) r;
        (* C17: the rewritten segment keeps the format it had (KeepRewriteVersion) or takes NewSegmentsVersion.
           token "v=<format of the segment of each deleted message, before>><format of the survivors' segment, after>" *)
        (match r with
         | "ok" :: _ :: vs :: _ when String.length vs > 3 ->
           (match String.index_opt vs '>' with
            | Some i when i >= 3 && i + 1 < String.length vs ->
              let before = vs.[2] and after = vs.[i + 1] in
              if after <> '-' then
                chk "C17" "rewritten_version_as_configured"
                  (after = (if c.ckeepv then before else (match c.cnewv with V1 -> '1' | V2 -> '2'))) r;
              (* a new empty head created by the Delete is a new segment: NewSegmentsVersion *)
              (match String.index_opt vs '^' with
               | Some j when j + 1 < String.length vs ->
                 chk "C17" "new_head_in_new_segments_version" (vs.[j + 1] = (match c.cnewv with V1 -> '1' | V2 -> '2')) r
               | _ -> ())
            | _ -> ())
         | _ -> ());
        (match o with OOk (_, ms) -> ignore (apply_deleted "C12" ms r) | OErr _ -> ())
      end
    | ["delmb"; _; _] | ["trimob"; _; _] ->
      (* a multi-pass helper stopped by its backoff function: whatever it returns - with or without the error - is what
         it removed (every later scan is judged against the log minus exactly these messages) *)
      (match r with
       | "err" :: _ :: _ :: _ :: ms | "ok" :: _ :: _ :: ms ->
         let msl = List.map parse_full_msg ms in
         (match !cur_op with
          | ["trimob"; _; b] when not c.tainted ->
            chk "C15" "trim_by_offset_stopped" (List.for_all (fun m -> Z.ltb m.moff (z_of_string b)) msl) r
          | _ -> ());
         ignore (apply_deleted "C12" msl r)
       | _ -> if not c.tainted then chk "C12" "delete_multi_backoff_result" false r)
    | ["delm"; offs] ->
      (match r with
       | "err" :: cl :: sz :: _ :: ms ->
         let msl = List.map parse_full_msg ms in
         if not c.tainted then
           chk "C12" "delete_multi_err"
             (check_delete_multi c.a (isz ()) (parse_offsets offs) (OErr (eclass_of_string cl))) r;
         ignore (apply_deleted "C12" msl r)
       | _ ->
         let o = obs_of r p_del in
         if not c.tainted then
           chk "C12" "delete_multi" (check_delete_multi c.a (isz ()) (parse_offsets offs) o) r;
         (match o with OOk (_, ms) -> ignore (apply_deleted "C12" ms r) | OErr _ -> ()))
    | [("trimo" | "trimc" | "trims" | "trima" | "cupd" | "cdel"
       | "trim1o" | "trim1c" | "trim1s" | "trim1a" | "c1upd" | "c1del") as kind; arg] ->
      let argz = z_of_string arg in
      let multi = (String.length kind >= 4 && String.sub kind 0 4 = "trim" && kind.[4] <> '1')
                  || kind = "cupd" || kind = "cdel" in
      let (ok, sz, vs, ms) = (match r with
          | "ok" :: sz :: vs :: ms -> (true, z_of_string sz, parse_vers vs, List.map parse_full_msg ms)
          | "err" :: _ :: sz :: vs :: ms when multi -> (false, z_of_string sz, parse_vers vs, List.map parse_full_msg ms)
          | _ -> (false, Z0, [], [])) in
      if ok && not c.tainted then
        chk "C12" "helper_deleted_size"
          (check_delete c.a (isz ()) (List.map (fun m -> m.moff) ms) (OOk ((sz, vs), ms)) || ms = []) r;
      let prop = (if kind = "cupd" || kind = "cdel" || kind = "c1upd" || kind = "c1del" then "C16" else "C15") in
      let sel = List.map (fun m -> m.moff) ms in
      if not c.tainted then begin
        chk prop "helper_ok" (ok || ((kind = "trima" || kind = "trim1a") && c.a.live = [])) r;
        (* what was removed must be allowed to be selected *)
        (match kind with
         | "trimo" -> chk "C15" "trim_by_offset" (check_find_by_offset c.a argz sel) r
         | "trimc" -> chk "C15" "trim_by_count" (check_find_by_count c.a argz sel) r
         | "trima" -> chk "C15" "trim_by_age" (check_find_by_age c.a argz sel) r
         | "trims" ->
           (match c.last_stat_size with
            | Some total ->
              let msz m = Z.add (rec_size c.cnewv m) (isz ()) in
              if not (c.v1ok && c.v2ok) then
                chk "C15" "trim_by_size" (check_find_by_size c.a msz total argz sel) r
            | None -> ());
           if not (c.v1ok && c.v2ok) then c.size_bound <- Some argz
         | "trim1o" -> chk "C15" "trim1_by_offset_subset"
                         (List.for_all (fun o -> Z.ltb o argz || arg = "-1") sel) r
         | "cupd" | "c1upd" ->
           chk "C16" "compact_updates_allowed"
             (List.for_all (fun o -> List.exists (fun m -> m.moff = o) c.a.live) sel
              && check_updates_sel argz sel c.a.live) r
         | "cdel" | "c1del" ->
           chk "C16" "compact_deletes_allowed" (check_deletes_sel argz sel [] c.a.live) r
         | _ -> ())
      end;
      let saved_bound = c.size_bound in
      let before = apply_deleted prop ms r in
      c.size_bound <- saved_bound;
      if prop = "C16" && not c.tainted then
        chk "C16" "latest_preserved" (check_latest_preserved before c.a.live) r;
      if kind = "cupd" && not c.tainted && c.mono_hist then
        chk "C16" "updates_bound" ((let rest = List.filter (fun m -> Z.leb m.mtime argz) c.a.live in
                                       List.for_all (fun m ->
                                           List.length (List.filter (fun x -> x.mkey = m.mkey) rest) <= 1) rest)) r
    | ["compact"] ->
      (* Compact with both cut-offs after every message: exactly one message per key is left, the last one, and not
         even that when it has no value (a message without value means 'absent') *)
      (match r with
       | "ok" :: _ :: _ :: ms ->
         let msl = List.map parse_full_msg ms in
         let before = apply_deleted "C16" msl r in
         if not c.tainted then begin
           chk "C16" "latest_preserved" (check_latest_preserved before c.a.live) r;
           let rec last_of k = function
             | [] -> None
             | m :: rest -> (match last_of k rest with Some x -> Some x | None -> if m.mkey = k then Some m else None) in
           let expect = List.filter (fun m -> m.mval <> [] && last_of m.mkey before = Some m) before in
           chk "C16" "compact_leaves_the_last_valued_message_of_every_key" (c.a.live = expect) r
         end
       | _ -> if not c.tainted then chk "C16" "compact_ok" false r)
    | ["backup"; name] | ["backupdir"; name] ->
      (match r with
       | "ok" :: _ -> c.bk <- (name, c.a) :: List.remove_assoc name c.bk
       | _ -> if not c.tainted then chk "C20" "backup_ok" false r)
    | ["bkobs"; name; _] ->
      (* lines: "<sub> => <result>" evaluated against the abstract state at backup time *)
      (match List.assoc_opt name c.bk with
       | None -> ()
       | Some a ->
         let rec split acc l = (match l with
             | "=>" :: rest -> (List.rev acc, rest)
             | x :: rest -> split (x :: acc) rest
             | [] -> (List.rev acc, [])) in
         let (sub, res) = split [] r in
         (match sub with
          | ["check"; _] | ["open"] -> chk "C20" "backup_checks_and_opens" false r
          | ["next"] -> chk "C20" "backup_next" (check_next a (obs_of res (fun l -> z_of_string (List.hd l)))) r
          | ["scan"; off] ->
            let o = obs_of res p_consume in
            chk "C20" "backup_consume" (check_consume a (z_of_string off) (z_of_int 7) o) r;
            (match o with
             | OOk (n, ms) -> scan_acc := !scan_acc @ ms; scan_final := Some n; in_scan := true
             | OErr _ -> ())
          | ["get"; off] -> chk "C20" "backup_get" (check_get a (z_of_string off) (obs_of res p_msg)) r
          | ["stat"] ->
            (match res with
             | "ok" :: _ :: cnt :: _ -> chk "C20" "backup_stat_count" (check_stat_count a (z_of_string cnt)) r
             | _ -> chk "C20" "backup_stat_ok" false r)
          | _ -> ()))
    | "loaddir" :: _ -> c.tainted <- true; mutated c
    | "setlog" :: next :: ms ->
      (* the log as scanned after recovery: the other views must agree with it *)
      c.a <- { live = List.map parse_full_msg ms; anext = z_of_string next };
      c.tainted <- false;
      c.mono_hist <- mono_times c.a.live; c.neg_time <- List.exists (fun m -> Z.ltb m.mtime Z0) c.a.live;
      (* a later Publish with an earlier time than what the log already holds makes the times go back *)
      c.last_pub_time <- List.fold_left (fun acc m -> match acc with
          | Some t when Z.leb m.mtime t -> acc
          | _ -> Some m.mtime) None c.a.live;
      mutated c
    | ["rmindex"; _] | ["rmindex"; _; _] | ["idxcut"; _] | ["gc"] | ["sleepms"; _] | ["bkclean"; _] | ["bkhalf"; _] | ["bkhalf"; _; _] -> ()
    | ["migrate"; v] ->
      (match r with
       | "ok" :: _ ->
         (if v = "1" then (c.v1ok <- true; c.v2ok <- false) else (c.v2ok <- true; c.v1ok <- false));
         c.migrated <- Some v
       | _ -> if not c.tainted then chk "C17" "migrate_ok" false r)
    | ["files"] ->
      (* right after Migrate(v): every log file is in version v (an empty V1 file has no header), and a
         second Migrate(v) leaves the listing unchanged *)
      (match c.migrated with
       | Some v ->
         let logs = List.filter (fun t -> let parts = String.split_on_char ':' t in
                                  match parts with nm :: _ -> Filename.check_suffix nm ".log" | [] -> false) r in
         let ok = List.for_all (fun t ->
             match String.split_on_char ':' t with
             | _ :: _ :: ver :: _ -> ver = "v" ^ v
             | _ -> false) logs in
         chk "C17" "versions_after_migrate" ok r;
         (match c.files_after_migrate with
          | Some (v', prev) when v' = v -> chk "C17" "migrate_idempotent" (prev = r) r
          | _ -> ());
         c.files_after_migrate <- Some (v, r);
         c.migrated <- None
       | None -> c.files_after_migrate <- None)
    | ["checkdir"] | ["checkall"] ->
      (* C11: after a clean close every segment passes Check (only claimed for monotone times with a time index) *)
      if not c.tainted && (c.mono_hist && not c.neg_time || not c.ctimes_) then
        chk "C11" "closed_segments_check" (r = ["ok"]) r
    | ["recoverdir"] -> if not c.tainted then chk "C07" "recoverdir_ok" (r = ["ok"]) r
    | op -> eval_query op r in
  (try
     while true do
       let line = String.trim (input_line ic) in
       incr lineno;
       if line = "" || line.[0] = '#' then ()
       else if String.length line > 5 && String.sub line 0 5 = "case " then begin
         finish_scan ();
         cs := cfresh (); case := String.sub line 5 (String.length line - 5)
       end else if line.[0] = '=' then begin
         let r = toks (String.sub line 1 (String.length line - 1)) in
         (try handle_result r with Failure m -> Printf.printf "PWARN case=%s line=%d parse %s\n" !case !lineno m)
       end else begin
         finish_scan ();
         cur_op := toks line; cur_line := !lineno;
         (match !cur_op with
          | ["probe"; "scan"] -> in_scan := true; scan_acc := []; scan_final := None; scan_alog := None; scan_prop := "C01"
          | "bkobs" :: name :: _ -> scan_acc := []; scan_final := None; scan_prop := "C20";
            scan_alog := List.assoc_opt name !cs.bk
          | _ -> ())
       end
     done
   with End_of_file -> ());
  finish_scan ();
  close_in ic;
  Printf.printf "PSUMMARY checked=%d failed=%d\n" !nchecked !nfail


(* ====================================================================
   codec mode: byte-level functions of Codec.v *)

let parse_item (tok : string) : item =
  match String.split_on_char '|' tok with
  | [o; p; t; hh] -> { ioff = z_of_string o; ipos = z_of_string p; its = z_of_string t; ihash = z_of_string hh }
  | _ -> failwith ("bad item " ^ tok)

let fmt_item (it : item) : string =
  Printf.sprintf "%s|%s|%s|%s" (string_of_z it.ioff) (string_of_z it.ipos) (string_of_z it.its) (string_of_z it.ihash)

let ver_of s = if s = "1" then V1 else V2
let params_of_toks t k = { ptimes = (t = "1"); pkeys = (k = "1") }
let opt_hex s = if s = "none" then None else Some (bytes_of_hex s)
let hex_or_empty b = match b with [] -> "-" | _ -> hex_of_bytes b

let codec_step (f : string list) : string =
  match f with
  | "enc" :: v :: _base :: ms ->
    let v = ver_of v in
    let msgs = List.map parse_full_msg ms in
    let b = enc_log crc32c v msgs in
    (* positions: prefix sums *)
    let pos = ref (int_of_z (hdr_size v)) in
    let ps = List.map (fun m -> let p = !pos in pos := p + int_of_z (rec_size v m); string_of_int p) msgs in
    Printf.sprintf "%s %s" (hex_or_empty b) (if ps = [] then "-" else String.concat "," ps)
  | ["dec"; base; hx; _kind] ->
    let b = bytes_of_hex hx in
    (match log_version b (z_of_string base) with
     | Err e -> "openerr " ^ class_name e
     | Ok v ->
       let ((recs, p), e) = scan_log crc32c (scan_fuel_of b) v b (hdr_size v) in
       let st = (match e with ScanEOF -> "eof" | ScanCorrupt -> "corrupt" | ScanFuel -> "fuel") in
       Printf.sprintf "v%s %s@%s%s" (match v with V1 -> "1" | V2 -> "2") st (string_of_z p)
         (String.concat "" (List.map (fun (pos, m) -> Printf.sprintf " %s:%s" (string_of_z pos) (fmt_msg m)) recs)))
  | "ienc" :: v :: t :: k :: _base :: items ->
    hex_or_empty (enc_index (ver_of v) (params_of_toks t k) (List.map parse_item items))
  | ["idec"; t; k; base; hx] ->
    (match index_read (params_of_toks t k) (z_of_string base) (bytes_of_hex hx) with
     | Err e -> err e
     | Ok (_, items) -> "ok" ^ String.concat "" (List.map (fun it -> " " ^ fmt_item it) items))
  | ["check"; t; k; base; lhx; ihx] ->
    (match check_bytes crc32c fnv64a (params_of_toks t k) (z_of_string base) (bytes_of_hex lhx) (opt_hex ihx) with
     | Err e -> err e
     | Ok () -> "ok")
  | ["recover"; t; k; base; lhx; ihx] ->
    (match recover_bytes crc32c fnv64a (params_of_toks t k) (z_of_string base) (bytes_of_hex lhx) (opt_hex ihx) with
     | Err e -> err e
     | Ok (nl, ni) ->
       (* the file-system steps of Segment.Recover according to RecoverCrash.recover_prog, in the words of the FS tap *)
       let fname = function RfLog -> "log" | RfRtmp -> "rtmp" | RfIdx -> "idx" | RfItmp -> "itmp" in
       let render = function
         | RRemove f -> "remove:" ^ fname f
         | RCreate (f, hdr) -> Printf.sprintf "create:%s:%d" (fname f) (List.length hdr)
         | RWrite (f, bs) -> Printf.sprintf "write:%s:%d" (fname f) (List.length bs)
         | RFsync f -> "fsync:" ^ fname f
         | RRename (a, b) -> Printf.sprintf "rename:%s>%s" (fname a) (fname b) in
       let steps = (match recover_prog crc32c fnv64a (params_of_toks t k) (z_of_string base) (bytes_of_hex lhx) (opt_hex ihx) with
           | Err _ -> "?"
           | Ok prog -> String.concat "," (List.map render prog)) in
       Printf.sprintf "ok %s %s steps=%s" (hex_or_empty nl)
         (match ni with None -> "none" | Some b -> hex_or_empty b) steps)
  | "migrate" :: mv :: iv :: t :: k :: base :: lhx :: ihx :: stale when List.length stale <= 1 ->
    (* Segment.Migrate on bytes: RecoverCrash.migrate_prog run on the files (rrun), and its steps in the words of the FS tap;
       stale = what an earlier migration that died left in <log>.migrate *)
    let stale_tmp = (match stale with
        | [s] when String.length s >= 6 && String.sub s 0 6 = "stale:" -> Some (bytes_of_hex (String.sub s 6 (String.length s - 6)))
        | _ -> None) in
    let p = params_of_toks t k in
    let b = bytes_of_hex lhx in
    (match migrate_prog crc32c fnv64a p (z_of_string base) (ver_of mv) (ver_of iv) b with
     | Err e -> err e
     | Ok prog ->
       let fin = rrun { rlog = b; rrtmp = stale_tmp; ridx = opt_hex ihx; ritmp = None } prog in
       let fname = function RfLog -> "log" | RfRtmp -> "rtmp" | RfIdx -> "idx" | RfItmp -> "itmp" in
       let render = function
         | RRemove f -> "remove:" ^ fname f
         | RCreate (f, hdr) -> Printf.sprintf "create:%s:%d" (fname f) (List.length hdr)
         | RWrite (f, bs) -> Printf.sprintf "write:%s:%d" (fname f) (List.length bs)
         | RFsync f -> "fsync:" ^ fname f
         | RRename (a, b) -> Printf.sprintf "rename:%s>%s" (fname a) (fname b) in
       Printf.sprintf "ok %s %s%s steps=%s" (hex_or_empty fin.rlog)
         (match fin.ridx with None -> "none" | Some x -> hex_or_empty x)
         (match fin.rrtmp with None -> "" | Some _ -> " extra:.log.migrate") (String.concat "," (List.map render prog)))
  | ["segbk"; _base; slog; sidx; mtl; mti; tlog; tmtl; tidx; tmti] ->
    (* Segment.Backup of one segment: BackupFiles.copy_file on the log, then on the index *)
    let file hx mt = { bdata = (if hx = "-" then [] else bytes_of_hex hx); bmtime = z_of_string mt } in
    let tgt hx mt = if hx = "none" then None else Some (file hx mt) in
    let show f = Printf.sprintf "%s %s" (hex_or_empty f.bdata) (string_of_z f.bmtime) in
    Printf.sprintf "ok %s %s" (show (copy_file (file slog mtl) (tgt tlog tmtl))) (show (copy_file (file sidx mti) (tgt tidx tmti)))
  | "mkseg" :: v :: iv :: t :: k :: _base :: ms ->
    (* a clean segment: log bytes and the derived index bytes *)
    let v = ver_of v and p = params_of_toks t k in
    let msgs = List.map parse_full_msg ms in
    Printf.sprintf "%s %s" (hex_or_empty (enc_log crc32c v msgs))
      (hex_or_empty (enc_index (ver_of iv) p (derive fnv64a p v msgs)))
  | "pubseg" :: t :: k :: base :: lhx :: ihx :: ms ->
    (* open a directory holding this one segment, publish, close: the files afterwards *)
    let p = params_of_toks t k in
    let b = bytes_of_hex lhx in
    (match log_version b (z_of_string base) with
     | Err e -> err e
     | Ok v ->
       let ((recs, _), e) = scan_log crc32c (scan_fuel_of b) v b (hdr_size v) in
       (match e with
        | ScanEOF ->
          let idx = (match opt_hex ihx with
              | None -> Ok None
              | Some ib -> (match index_read p (z_of_string base) ib with
                  | Ok (iv, items) -> Ok (Some (iv, items))
                  | Err e -> Err e)) in
          (match idx with
           | Err e -> err e
           | Ok ix ->
             let sg = { sbase = z_of_string base; sver = v; srecs = List.map snd recs; sidx = ix } in
             let st0 = { segs = [sg]; wcarry = Z0; opened = None; lvirt = false } in
             let c = { cro = false; ckeys = p.pkeys; ctimes = p.ptimes; cautosync = false;
                       crollover = z_of_int 100000000; ccheck = false; crecover = false;
                       cnewver = V2; ckeeprw = false; ceager = false } in
             (match log_open h st0 c with
              | Err e -> err e
              | Ok st1 ->
                (match log_publish h st1 (List.map parse_msg ms) with
                 | Err e -> err e
                 | Ok (st2, _) ->
                   (match st2.segs with
                    | [s2] ->
                      Printf.sprintf "ok %s %s" (hex_or_empty (enc_log crc32c s2.sver s2.srecs))
                        (match s2.sidx with
                         | None -> "none"
                         | Some (iv, items) -> hex_or_empty (enc_index iv p items))
                    | _ -> "err ModelSegments"))))
        | _ -> "err LogCorrupted"))
  | "dirq" :: t :: k :: ro :: n :: rest ->
    let p = params_of_toks t k in
    let n = int_of_string n in
    let rec take_segs i l acc =
      if i = 0 then (List.rev acc, l)
      else (match l with
          | base :: lhx :: ihx :: r -> take_segs (i - 1) r ((base, lhx, ihx) :: acc)
          | _ -> failwith "dirq segs") in
    let (sl, rest) = take_segs n rest [] in
    let queries = (match rest with "--" :: q -> q | _ -> failwith "dirq --") in
    let bsegs = List.map (fun (base, lhx, ihx) ->
        let items = (match index_read p (z_of_string base) (bytes_of_hex ihx) with
            | Ok (_, items) -> items | Err _ -> failwith "dirq: index must be intact") in
        { bbase = z_of_string base; blog = bytes_of_hex lhx; bitems = items; bmem = true }) sl in
    (match b_open (ro = "1") bsegs with
     | Err e -> "openerr " ^ class_name e
     | Ok l ->
       let c = crc32c in
       let one q =
         (match String.split_on_char ':' q with
          | ["cons"; off; max] ->
            (match b_log_consume c l (z_of_string off) (z_of_string max) with
             | Err e -> err e | Ok (n, ms) -> Printf.sprintf "ok %s%s" (string_of_z n) (fmt_msgs ms))
          | ["get"; off] ->
            (match b_log_get c l (z_of_string off) with Err e -> err e | Ok m -> "ok " ^ fmt_msg m)
          | ["getk"; key] ->
            if not p.pkeys then "err NoIndex" else
            (match b_log_get_by_key c fnv64a l (bytes_of_hex key) with Err e -> err e | Ok m -> "ok " ^ fmt_msg m)
          | ["gett"; ts] ->
            if not p.ptimes then "err NoIndex" else
            (match b_log_get_by_time c l (z_of_string ts) with Err e -> err e | Ok m -> "ok " ^ fmt_msg m)
          | ["consk"; key; off; max] ->
            if not p.pkeys then "err NoIndex" else
            (match b_log_consume_by_key c fnv64a l (bytes_of_hex key) (z_of_string off) (z_of_string max) with
             | Err e -> err e | Ok (n, ms) -> Printf.sprintf "ok %s%s" (string_of_z n) (fmt_msgs ms))
          | _ -> "err UnknownQuery") in
       String.concat " ; " (List.map one queries))
  | ["hash"; k] -> string_of_z (fnv64a (bytes_of_hex k))
  | ["crc"; hx] -> string_of_z (crc32c (bytes_of_hex hx))
  | _ -> "err UnknownOp"

let run_codec (path : string) =
  let ic = open_in path in
  (try
     while true do
       let line = String.trim (input_line ic) in
       if line = "" || line.[0] = '#' then ()
       else begin
         print_endline line;
         if not (String.length line > 5 && String.sub line 0 5 = "case ") then begin
           let r = (try codec_step (toks line) with Failure m -> "err ModelFailure " ^ m) in
           print_string "= "; print_endline r
         end
       end
     done
   with End_of_file -> ());
  close_in ic


(* ccheck mode: the C07 checkers of RecoverSpec.v evaluated on the implementation's codec output *)
let run_ccheck (path : string) =
  let ic = open_in path in
  let cur : string list ref = ref [] in
  let lineno = ref 0 in
  let nfail = ref 0 and nchk = ref 0 in
  let fail clause r =
    incr nfail;
    Printf.printf "PFAIL case=codec line=%d prop=C07 clause=%s op=%s got=%s\n" !lineno clause
      (String.concat "_" (List.map (fun t -> if String.length t > 60 then String.sub t 0 60 ^ ".." else t) !cur))
      (String.concat "_" (List.map (fun t -> if String.length t > 60 then String.sub t 0 60 ^ ".." else t) r)) in
  (try
     while true do
       let line = String.trim (input_line ic) in
       incr lineno;
       if line = "" || line.[0] = '#' then ()
       else if line.[0] = '=' then begin
         let r = toks (String.sub line 1 (String.length line - 1)) in
         (match !cur with
          | ["check"; t; k; base; lhx; ihx] ->
            incr nchk;
            let ok = (r = ["ok"]) in
            if List.mem "Panic" r then fail "check_no_panic" r
            else if not (check_check crc32c fnv64a (params_of_toks t k) (z_of_string base) (bytes_of_hex lhx) (opt_hex ihx) ok)
            then fail "check_iff_clean" r
          | ["recover"; t; k; base; lhx; ihx] ->
            incr nchk;
            if List.mem "Panic" r then fail "recover_no_panic" r
            else begin
              let out = (match r with
                  | "ok" :: nl :: ni :: rest ->
                    let rest = List.filter (fun x -> not (String.length x >= 6 && String.sub x 0 6 = "steps=")) rest in
                    if rest <> [] then (fail "recover_leaves_extra_files" r; None)
                    else Some (bytes_of_hex nl, opt_hex ni)
                  | _ -> None) in
              if not (check_recover crc32c fnv64a (params_of_toks t k) (z_of_string base) (bytes_of_hex lhx) (opt_hex ihx) out)
              then fail "recover_valid_prefix" r
            end
          | _ -> ())
       end else cur := toks line
     done
   with End_of_file -> ());
  close_in ic;
  Printf.printf "PSUMMARY checked=%d failed=%d\n" !nchk !nfail


(* flock mode: the lock-table model of Flock.v *)
let rec nat_of_int i = if i <= 0 then O else S (nat_of_int (i - 1))

let run_flock (path : string) =
  let ic = open_in path in
  let t = ref ftab0 in
  (try
     while true do
       let line = String.trim (input_line ic) in
       if line = "" || line.[0] = '#' then ()
       else begin
         print_endline line;
         let f = toks line in
         let step o =
           let (t', r) = fstep !t o in
           t := t';
           (match r with FOk -> "ok" | FSkip -> "skip"
                       | FErr c -> "err " ^ (match c with
                           | CLocked -> "Locked" | CReadonly -> "Readonly" | CIndexCorrupted -> "IndexCorrupted"
                           | CNotExist -> "NotExist" | CLogCorrupted -> "LogCorrupted" | _ -> "Other")) in
         (match f with
          | "case" :: _ -> t := ftab0
          | ["prep"; _] -> print_endline "= ok"
          | "o" :: h :: ro :: chk :: _ ->
            (* Recover (chk = 2) on a read-only handle only checks *)
            print_endline ("= " ^ step (FOpen (nat_of_int (int_of_string h), ro = "1", chk = "1" || chk = "2")))
          | ["c"; h] -> print_endline ("= " ^ step (FClose (nat_of_int (int_of_string h))))
          | ["p"; h] -> print_endline ("= " ^ step (FPublish (nat_of_int (int_of_string h))))
          | ["d"; h] -> print_endline ("= " ^ step (FDelete (nat_of_int (int_of_string h))))
          | ["corrupt"; b] -> print_endline ("= " ^ step (FCorrupt (b = "1")))
          | ["tear"; b] -> print_endline ("= " ^ step (FTear (b = "1")))
          | ["rmdir"; b] -> print_endline ("= " ^ step (FRmdir (b = "1")))
          | ["q"; h] | ["k"; h] ->
            (match fstep !t (FPublish (nat_of_int (int_of_string h))) with
             | (_, FSkip) -> print_endline "= skip"
             | _ -> print_endline "= ok")
          | ["rmlock"] -> print_endline "= ok"       (* no handle is open: the lock table does not know the file *)
          | ["logsum"] -> print_endline "= ok"
          | _ -> print_endline "= err UnknownOp")
       end
     done
   with End_of_file -> ());
  close_in ic


(* notify mode: the transition system of Notify.v on a given schedule *)
let run_notify (path : string) =
  let ic = open_in path in
  (try
     while true do
       let line = String.trim (input_line ic) in
       if line = "" || line.[0] = '#' then ()
       else begin
         print_endline line;
         (match toks line with
          | ["nrun"; init; ths; sched] ->
            let threads = List.map (fun sp ->
                match sp.[0] with
                | 'w' -> W0 (z_of_string (String.sub sp 2 (String.length sp - 2)))
                | 's' -> S0 (z_of_string (String.sub sp 2 (String.length sp - 2)))
                | _ -> C0) (String.split_on_char ',' ths) in
            let acts = List.map (fun a ->
                if a.[0] = 'x' then Cancel (nat_of_int (int_of_string (String.sub a 1 (String.length a - 1))))
                else Step (nat_of_int (int_of_string a))) (String.split_on_char ',' sched) in
            (* Notify.xrun: the base system plus pending cancellations (a context that ends before the waiter parks) *)
            let s1 = (xrun { base = ninit (z_of_string init) threads; canc = [] } acts).base in
            (* a parked waiter whose channel has been closed wakes by itself: flush those enabled steps *)
            let parked = List.concat (List.mapi (fun i p -> match p with W4 _ -> [Step (nat_of_int i)] | _ -> []) s1.threads) in
            let s' = nrun s1 parked in
            let st p = (match p with
                | W0 _ -> "at:wait.enter" | W1 _ -> "at:wait.take" | W2 _ -> "at:wait.probe" | W3 _ -> "at:wait.put"
                | W4 _ -> "at:park" | WOk _ -> "ok" | WClosed _ -> "closed" | WCanceled _ -> "canceled"
                | S0 _ -> "at:set.take" | S1 _ -> "at:set.store" | S2 _ -> "at:set.close" | S3 -> "at:set.put" | SDone -> "done"
                | C0 -> "at:close.take" | C1 _ -> "at:close.closeb" | C2 -> "at:close.closebarrier" | CDone -> "done" | CErr -> "err") in
            print_endline ("= ok" ^ String.concat "" (List.mapi (fun i p -> Printf.sprintf " t%d=%s" i (st p)) s'.threads))
          | _ -> ())
       end
     done
   with End_of_file -> ());
  close_in ic


(* ---------- C08: the protocol model of Conc.v run on the placements of the pause-point harness.
   cpause <rollover> <setup> <point> <A> <B> [<C>] -- ...
   A is stepped to the pause point, B and C run until they finish or block, then every interleaving of the
   remaining steps is explored; printed: the set of possible outcomes (results of A, B, C, live messages, next). *)
type cq = QGet of int | QCons1 of int
let rec int_of_nat = function O -> 0 | S n -> 1 + int_of_nat n
let cbytes (s : string) : bytes = List.init (String.length s) (fun i -> n_of_int (Char.code s.[i]))
let cstring (b : bytes) : string = String.concat "" (List.map (fun x -> String.make 1 (Char.chr (int_of_n x))) b)
let cmsg_id (m : msg) = Printf.sprintf "%d:%s" (int_of_z m.moff) (cstring m.mval)
let cqeval (q : cq) (live : msg list) (next : z) : string =
  let nx = int_of_z next in
  match q with
  | QGet off ->
    (match List.filter (fun m -> int_of_z m.moff = off) live with
     | m :: _ -> "m:" ^ cmsg_id m
     | [] -> if off >= 0 && off < nx then "err:NotFound" else if off >= nx then "err:InvalidOffset" else "err:?")
  | QCons1 off ->
    if off > nx then "err:InvalidOffset"
    else if off = -1 then Printf.sprintf "n:%d:" nx
    else (match List.filter (fun m -> off < 0 || int_of_z m.moff >= off) live with
        | m :: _ -> Printf.sprintf "n:%d:%s" (int_of_z m.moff + 1) (cmsg_id m)
        | [] -> Printf.sprintf "n:%d:" nx)

let cparse_op (s : string) : (cq, string) pc0 option =
  match String.split_on_char ':' s with
  | ["pub"; vs] ->
    Some (P0 (List.map (fun v -> { moff = Z0; mtime = z_of_int 100; mkey = cbytes ("k" ^ String.sub v 0 1); mval = cbytes v })
                (String.split_on_char ',' vs)))
  | ["get"; o] -> Some (R0 (QGet (int_of_string o)))
  | ["cons"; o; "1"] -> Some (R0 (QCons1 (int_of_string o)))
  | ["del"; os] -> Some (D0 (List.map (fun o -> z_of_int (int_of_string o)) (String.split_on_char ',' os)))
  | _ -> None

let cseg_size (sg : cseg) : int =
  8 + List.fold_left (fun a m -> a + 36 + List.length m.mkey + List.length m.mval) 0 sg.crecs
let cseg_base (st : (cq, string) cstate) (sg : cseg) : int =
  match sg.crecs with m :: _ -> int_of_z m.moff | [] -> int_of_z st.nxt0

(* the action thread i takes next (its choices resolved as the implementation resolves them) *)
let cnext_act (roll : int) (st : (cq, string) cstate) (i : int) : act option =
  let ni = nat_of_int i in
  match List.nth_opt st.thr i with
  | None -> None
  | Some p ->
    (match p with
     | Idle | PDone _ | RDone _ | DDone _ -> None
     | P1 _ ->
       (match List.rev st.segs0 with
        | hd :: _ when hd.crecs <> [] && cseg_size hd > roll -> Some (Roll ni)
        | _ -> Some (Step0 ni))
     | R1 _ -> Some (HeadFirst ni)
     | D1 offs ->
       let lo = List.fold_left (fun a o -> min a (int_of_z o)) max_int offs in
       (* segment.Get on the lowest offset: the last segment whose base is not above it; before the first: NotFound *)
       let idx = ref (-1) in
       List.iteri (fun k sg -> if cseg_base st sg <= lo then idx := k) st.segs0;
       Some (Find (ni, nat_of_int (if !idx < 0 then 1000 else !idx)))
     | _ -> Some (Step0 ni))

let cclear (st : (cq, string) cstate) = { st with trace = [] }
let cdo (st : (cq, string) cstate) (a : act) = match cstep cqeval st a with Some s' -> Some (cclear s') | None -> None

let rec crun_thread roll st i fuel =
  if fuel = 0 then st else
    match cnext_act roll st i with
    | None -> st
    | Some a -> (match cdo st a with Some s' -> crun_thread roll s' i (fuel - 1) | None -> st)

let cpc_at (point : string) (p : (cq, string) pc0) (rolled : bool) : bool =
  match point, p with
  | "publish.written", P2 _ -> true
  | "publish.message", P2 _ -> true   (* file writes are invisible: the same model state *)
  | "publish.rolled", P2 _ -> rolled
  | "delete.found", D2 _ -> true
  | "delete.synced", D3 _ -> true
  | "delete.rewritten", (D4 _ | D5 _) -> true
  | _ -> false

let coutcome (st : (cq, string) cstate) (ids : int list) : string =
  let res i = (match List.nth_opt st.thr i with
      | Some (PDone r) -> Printf.sprintf "n:%d" (int_of_z r)
      | Some (RDone r) -> r
      | Some (DDone ms) -> "m:" ^ String.concat "," (List.sort compare (List.map cmsg_id ms))
      | _ -> "?") in
  String.concat " " (List.mapi (fun k i -> Printf.sprintf "c%d=%s" (k + 1) (res i)) ids)
  ^ Printf.sprintf " live=%s next=%d" (String.concat "," (List.map cmsg_id (cabs st.segs0))) (int_of_z st.nxt0)

let run_cconc (path : string) =
  let ic = open_in path in
  (try
     while true do
       let line = String.trim (input_line ic) in
       if line <> "" && line.[0] <> '#' then begin
         print_endline line;
         let f = List.filter (fun s -> s <> "") (String.split_on_char ' ' line) in
         (match f with
          | "cpause" :: rollover :: setup :: point :: rest ->
            let roll = int_of_string (String.concat "" (List.filter (fun s -> s <> "") (String.split_on_char 'k' rollover))) in
            let inside = (let rec upto l = (match l with [] -> [] | "--" :: _ -> [] | x :: r -> x :: upto r) in upto rest) in
            let setup_ops = if setup = "-" then [] else String.split_on_char ';' setup in
            let all = setup_ops @ inside in
            (match List.fold_right (fun s acc -> match acc, cparse_op s with Some l, Some p -> Some (p :: l) | _ -> None) all (Some []) with
             | None -> print_endline "= skip"
             | Some pcs ->
               let st0 = cinit pcs in
               let ns = List.length setup_ops in
               let st1 = List.fold_left (fun st i -> crun_thread roll st i 100) st0 (List.init ns (fun i -> i)) in
               let ids = List.init (List.length inside) (fun k -> ns + k) in
               let a = ns in
               (* A up to the pause point *)
               let rec hold st rolled fuel =
                 if fuel = 0 then st else
                   match List.nth_opt st.thr a with
                   | Some p when cpc_at point p rolled -> st
                   | _ ->
                     (match cnext_act roll st a with
                      | None -> st
                      | Some act ->
                        (match cdo st act with
                         | Some s' -> hold s' (rolled || (match act with Roll _ -> true | _ -> false)) (fuel - 1)
                         | None -> st)) in
               let st2 = hold st1 false 100 in
               (* from here on every interleaving of A, B and C (B and C are started while A is held, but a slow call may
                  still be running when A is released) *)
               let st3 = st2 in
               let outs = Hashtbl.create 16 in
               let seen = Hashtbl.create 256 in
               let rec explore st =
                 let key = Marshal.to_string st [] in
                 if not (Hashtbl.mem seen key) then begin
                   Hashtbl.add seen key ();
                   let moves = List.filter_map (fun i -> match cnext_act roll st i with
                       | Some act -> (match cdo st act with Some s' -> Some s' | None -> None)
                       | None -> None) ids in
                   if moves = [] then Hashtbl.replace outs (coutcome st ids) ()
                   else List.iter explore moves
                 end in
               explore st3;
               let l = List.sort compare (Hashtbl.fold (fun k () acc -> k :: acc) outs []) in
               print_endline ("= " ^ String.concat " || " l))
          | _ -> print_endline "= skip")
       end
     done
   with End_of_file -> ());
  close_in ic

(* ---------- C05: the file-system program (CrashDir.v) of every Delete of a history, in the canonical event language
   of the FS tap: "remove <file>", "rename <from> <to>", "create <file>" *)
let run_delprog (path : string) =
  let ic = open_in path in
  let st = ref (fresh ()) in
  let opidx = ref 0 in
  let pad z = Printf.sprintf "%020d" (int_of_z z) in
  let render (o : fsop) : string list =
    (match o with
     | RemoveIndex b -> ["remove " ^ pad b ^ ".index"]
     | RemoveLog b -> ["remove " ^ pad b ^ ".log"]
     | RenameTmpLog b -> ["rename T.log " ^ pad b ^ ".log"]
     | RenameTmpIndex b -> ["rename T.index " ^ pad b ^ ".index"]
     | RemoveTmp -> ["remove T.index"; "remove T.log"]
     | CreateLog (b, _) -> ["create " ^ pad b ^ ".log"]
     | CreateIdx b -> ["create " ^ pad b ^ ".index"]) in
  (try
     while true do
       let line = String.trim (input_line ic) in
       if line = "" || line.[0] = '#' then ()
       else begin
         let f = Array.of_list (List.filter (fun s -> s <> "") (String.split_on_char ' ' line)) in
         if f.(0) = "case" then begin st := fresh (); opidx := 0; print_endline line end
         else begin
           (if f.(0) = "del" && Array.length f > 1 then begin
               let offs = parse_offsets f.(1) in
               let prog = delete_prog !st.s offs in
               print_endline (Printf.sprintf "delprog %d %s" !opidx (String.concat " ; " (List.concat (List.map render prog))));
               (* C06: the complete program of the Delete - syncs, rewrite, swap - according to DurableDelete.v *)
               let xfn = function FLog b -> pad b ^ ".log" | FIdx b -> pad b ^ ".index" | FTLog -> "T.log" | FTIdx -> "T.index" in
               let render_x = function
                 | XD (DCreate (f, n)) -> Printf.sprintf "create %s %s" (xfn f) (string_of_z n)
                 | XD (DWrite (f, n)) -> Printf.sprintf "write %s %s" (xfn f) (string_of_z n)
                 | XD (DFsync f) -> "fsync " ^ xfn f
                 | XRename (a, b) -> Printf.sprintf "rename %s %s" (xfn a) (xfn b)
                 | XRemove f -> "remove " ^ xfn f in
               print_endline (Printf.sprintf "xprog %d %s" !opidx (String.concat " ; " (List.map render_x (delete_full !st.s offs))))
             end);
           (if (f.(0) = "pub" || f.(0) = "pubbig") && Array.length f > 1 then begin
               let prog = publish_prog !st.s in
               print_endline (Printf.sprintf "delprog %d %s" !opidx (String.concat " ; " (List.concat (List.map render prog))))
             end);
           (* C06: the write / fsync / create steps of Publish, Sync and Close according to Durable.v *)
           (let kinds = (match f.(0) with
               | "pub" when Array.length f > 1 ->
                 Some (publish_kinds !st.s (List.map parse_msg (List.tl (Array.to_list f))))
               | "sync" | "close" -> Some (sync_kinds !st.s)
               | _ -> None) in
            match kinds with
            | None -> ()
            | Some ks ->
              let (ops, _) = kinds_ops (head_base !st.s) ks in
              let fn = function FLog b -> pad b ^ ".log" | FIdx b -> pad b ^ ".index" | FTLog -> "T.log" | FTIdx -> "T.index" in
              let render_d = function
                | DCreate (f, n) -> Printf.sprintf "create %s %s" (fn f) (string_of_z n)
                | DWrite (f, n) -> Printf.sprintf "write %s %s" (fn f) (string_of_z n)
                | DFsync f -> "fsync " ^ fn f in
              print_endline (Printf.sprintf "dprog %d %s" !opidx (String.concat " ; " (List.map render_d ops))));
           ignore (step !st f);
           incr opidx
         end
       end
     done
   with End_of_file -> ());
  close_in ic

let () =
  match Array.to_list Sys.argv with
  | _ :: "hist" :: path :: _ -> run_hist path
  | _ :: "check" :: path :: _ -> run_check path
  | _ :: "codec" :: path :: _ -> run_codec path
  | _ :: "ccheck" :: path :: _ -> run_ccheck path
  | _ :: "flock" :: path :: _ -> run_flock path
  | _ :: "notify" :: path :: _ -> run_notify path
  | _ :: "cconc" :: path :: _ -> run_cconc path
  | _ :: "delprog" :: path :: _ -> run_delprog path
  | _ -> prerr_endline "usage: kvmodel hist <file>"; exit 2
